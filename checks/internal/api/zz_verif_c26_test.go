//go:build verif

package api

import (
	"bytes"
	"encoding/json"
	"fmt"
	"regexp"
	"sort"
	"strconv"
	"strings"
	"testing"
	"time"
	"unicode/utf8"

	"pgregory.net/rapid"

	"github.com/VKCOM/statshouse/internal/data_model"
	"github.com/VKCOM/statshouse/internal/format"
)

// ---------- C26: user-supplied filter values cannot change the structure of storage queries ----------
//
// Oracles (none of them uses the escaping code of the repository):
//  (1) an independent lexer for the ClickHouse SQL subset tokenises the whole query;
//  (2) metamorphic: the token skeleton (string literals replaced by '?') equals the skeleton of the same query built
//      with benign placeholder strings;
//  (3) every literal decodes (ClickHouse unescaping rules) to the original user string, each expected user string
//      appears in exactly one literal, strings that must not influence the query appear in none;
//  (4) the where-clause, parsed and evaluated by an independent evaluator on generated rows, selects exactly the rows
//      that the reference filter semantics (written from the statement) selects.

// ---- case ----

type c26Val struct {
	Kind int    `json:"kind"` // 0 string+mapped, 1 string only, 2 mapped only, 3 "empty" marker
	S    []byte `json:"s,omitempty"`
	M    int64  `json:"m,omitempty"`
}

type c26Filter struct {
	Tag  int      `json:"tag"`
	Vals []c26Val `json:"vals,omitempty"`
	Re   []byte   `json:"re,omitempty"`
}

type c26RowTag struct {
	X int    `json:"x"`
	V int32  `json:"v,omitempty"`
	S []byte `json:"s,omitempty"`
}

type c26Row struct {
	Time      int64       `json:"time"`
	Metric    int32       `json:"metric"`
	IndexType int64       `json:"index_type,omitempty"`
	PreTag    int64       `json:"pre_tag,omitempty"`
	PreStag   []byte      `json:"pre_stag,omitempty"`
	Tags      []c26RowTag `json:"tags,omitempty"`
}

type c26Case struct {
	Mode         int         `json:"mode"` // 0 series, 1 tag values, 2 tag value ids
	NoMetric     bool        `json:"no_metric,omitempty"`
	MetricID     int32       `json:"metric_id"`
	MetricsIn    []int32     `json:"metrics_in,omitempty"`
	MetricsNotIn []int32     `json:"metrics_not_in,omitempty"`
	NumTags      int         `json:"num_tags"`
	RawTags      []int       `json:"raw_tags,omitempty"`
	Raw64Tags    []int       `json:"raw64_tags,omitempty"`
	PreKeyTag    int         `json:"prekey_tag"` // -1: none
	By           []int       `json:"by,omitempty"`
	Sort         int         `json:"sort,omitempty"`
	What         []int       `json:"what"`
	MinMaxHost   [2]bool     `json:"min_max_host"`
	StepSec      int64       `json:"step"`
	From         int64       `json:"from"`
	To           int64       `json:"to"`
	UTCOffset    int64       `json:"utc_offset"`
	ValuesTag    int         `json:"values_tag"`
	NumResults   int         `json:"num_results"`
	In           []c26Filter `json:"in,omitempty"`
	NotIn        []c26Filter `json:"not_in,omitempty"`
	Rows         []c26Row    `json:"rows,omitempty"`
}

// ---- independent lexer for the emitted ClickHouse subset ----

type c26Tok struct {
	K   byte // 'i' identifier, 'n' number, 's' string literal (S is the decoded value), 'p' punctuation
	S   string
	Pos int
}

func c26IdentStart(ch byte) bool {
	return ch == '_' || (ch >= 'a' && ch <= 'z') || (ch >= 'A' && ch <= 'Z')
}

func c26Digit(ch byte) bool { return ch >= '0' && ch <= '9' }

func c26Hex(ch byte) (byte, bool) {
	switch {
	case ch >= '0' && ch <= '9':
		return ch - '0', true
	case ch >= 'a' && ch <= 'f':
		return ch - 'a' + 10, true
	case ch >= 'A' && ch <= 'F':
		return ch - 'A' + 10, true
	}
	return 0, false
}

// c26LexString reads a single-quoted literal starting at sql[i] is a quote and returns the decoded value and the index after
// the closing quote. Rules of the ClickHouse lexer/parser: a backslash escapes the next byte, a doubled quote is a quote.
func c26LexString(sql string, i int) (string, int, error) {
	var out []byte
	j := i + 1
	for {
		if j >= len(sql) {
			return "", 0, fmt.Errorf("unterminated string literal starting at %d", i)
		}
		ch := sql[j]
		switch ch {
		case '\'':
			if j+1 < len(sql) && sql[j+1] == '\'' {
				out = append(out, '\'')
				j += 2
				continue
			}
			return string(out), j + 1, nil
		case '\\':
			if j+1 >= len(sql) {
				return "", 0, fmt.Errorf("unterminated escape at %d", j)
			}
			e := sql[j+1]
			j += 2
			switch e {
			case 'b':
				out = append(out, '\b')
			case 'f':
				out = append(out, '\f')
			case 'n':
				out = append(out, '\n')
			case 'r':
				out = append(out, '\r')
			case 't':
				out = append(out, '\t')
			case '0':
				out = append(out, 0)
			case 'a':
				out = append(out, '\a')
			case 'v':
				out = append(out, '\v')
			case 'e':
				out = append(out, 0x1b)
			case 'N': // NULL marker: nothing
			case 'x':
				if j+1 < len(sql) {
					h, ok1 := c26Hex(sql[j])
					l, ok2 := c26Hex(sql[j+1])
					if ok1 && ok2 {
						out = append(out, h<<4|l)
						j += 2
						continue
					}
				}
				return "", 0, fmt.Errorf("bad \\x escape at %d", j)
			case '\\', '\'', '"', '`', '/', '=':
				out = append(out, e)
			default:
				out = append(out, '\\', e)
			}
		default:
			out = append(out, ch)
			j++
		}
	}
}

func c26Lex(sql string) ([]c26Tok, error) {
	toks := make([]c26Tok, 0, len(sql)/4+8)
	i := 0
	for i < len(sql) {
		ch := sql[i]
		switch {
		case ch == ' ':
			i++
		case c26IdentStart(ch):
			j := i + 1
			for j < len(sql) && (c26IdentStart(sql[j]) || c26Digit(sql[j])) {
				j++
			}
			toks = append(toks, c26Tok{'i', sql[i:j], i})
			i = j
		case c26Digit(ch):
			j := i + 1
			for j < len(sql) && c26Digit(sql[j]) {
				j++
			}
			if j+1 < len(sql) && sql[j] == '.' && c26Digit(sql[j+1]) {
				j++
				for j < len(sql) && c26Digit(sql[j]) {
					j++
				}
			}
			if j < len(sql) && c26IdentStart(sql[j]) {
				return nil, fmt.Errorf("malformed number at %d", i)
			}
			toks = append(toks, c26Tok{'n', sql[i:j], i})
			i = j
		case ch == '\'':
			s, j, err := c26LexString(sql, i)
			if err != nil {
				return nil, err
			}
			toks = append(toks, c26Tok{'s', s, i})
			i = j
		default:
			two := ""
			if i+1 < len(sql) {
				two = sql[i : i+2]
			}
			switch two {
			case "--", "/*", "*/":
				return nil, fmt.Errorf("comment marker %q at %d", two, i)
			case ">=", "<=", "!=", "<>":
				toks = append(toks, c26Tok{'p', two, i})
				i += 2
				continue
			}
			if strings.IndexByte("=<>(),+-*/.", ch) < 0 {
				return nil, fmt.Errorf("unexpected byte %q at %d", ch, i)
			}
			toks = append(toks, c26Tok{'p', string(ch), i})
			i++
		}
	}
	return toks, nil
}

func c26Skeleton(toks []c26Tok) []string {
	res := make([]string, len(toks))
	for i, t := range toks {
		if t.K == 's' {
			res[i] = "?"
		} else {
			res[i] = string(t.K) + ":" + t.S
		}
	}
	return res
}

// ---- independent where-clause evaluator ----

type c26Val64 struct {
	str bool
	s   string
	i   int64
}

type c26Env struct {
	c      *c26Case
	row    *c26Row
	sel    map[string][]c26Tok // alias -> expression tokens of the select list
	depth  int
	prekey int // tag index behind _prekey, -1 if not applicable
}

type c26Parser struct {
	toks []c26Tok
	p    int
	env  *c26Env
}

type c26ParseErr struct{ msg string }

func (p *c26Parser) fail(format string, args ...any) {
	pos := -1
	if p.p < len(p.toks) {
		pos = p.toks[p.p].Pos
	}
	panic(c26ParseErr{fmt.Sprintf("at token %d (byte %d): ", p.p, pos) + fmt.Sprintf(format, args...)})
}

func (p *c26Parser) peek() c26Tok {
	if p.p < len(p.toks) {
		return p.toks[p.p]
	}
	return c26Tok{K: 0}
}

func (p *c26Parser) isP(s string) bool { t := p.peek(); return t.K == 'p' && t.S == s }
func (p *c26Parser) isI(s string) bool { t := p.peek(); return t.K == 'i' && t.S == s }

func (p *c26Parser) expectP(s string) {
	if !p.isP(s) {
		p.fail("expected %q, have %q", s, p.peek().S)
	}
	p.p++
}

func (p *c26Parser) parseOr() bool {
	v := p.parseAnd()
	for p.isI("OR") {
		p.p++
		r := p.parseAnd()
		v = v || r
	}
	return v
}

func (p *c26Parser) parseAnd() bool {
	v := p.parseNot()
	for p.isI("AND") {
		p.p++
		r := p.parseNot()
		v = v && r
	}
	return v
}

func (p *c26Parser) parseNot() bool {
	if p.isI("NOT") {
		p.p++
		return !p.parseNot()
	}
	return p.parsePrimary()
}

func (p *c26Parser) parsePrimary() bool {
	if p.isP("(") {
		p.p++
		v := p.parseOr()
		p.expectP(")")
		return v
	}
	if p.isI("match") {
		p.p++
		p.expectP("(")
		hay := p.parseValue()
		p.expectP(",")
		pat := p.peek()
		if pat.K != 's' {
			p.fail("match pattern must be a literal")
		}
		p.p++
		p.expectP(")")
		if !hay.str {
			p.fail("match on a non-string")
		}
		re, err := regexp.Compile(pat.S)
		if err != nil {
			p.fail("pattern %q does not compile: %v", pat.S, err)
		}
		return re.MatchString(hay.s)
	}
	lhs := p.parseValue()
	t := p.peek()
	switch {
	case t.K == 'p' && (t.S == "=" || t.S == "!=" || t.S == "<" || t.S == ">" || t.S == ">=" || t.S == "<=" || t.S == "<>"):
		p.p++
		rhs := p.parseValue()
		if lhs.str != rhs.str {
			p.fail("comparison of a string with a number")
		}
		var cmp int
		if lhs.str {
			cmp = strings.Compare(lhs.s, rhs.s)
		} else if lhs.i < rhs.i {
			cmp = -1
		} else if lhs.i > rhs.i {
			cmp = 1
		}
		switch t.S {
		case "=":
			return cmp == 0
		case "!=", "<>":
			return cmp != 0
		case "<":
			return cmp < 0
		case ">":
			return cmp > 0
		case ">=":
			return cmp >= 0
		default:
			return cmp <= 0
		}
	case t.K == 'i' && (t.S == "IN" || t.S == "NOT"):
		neg := false
		if t.S == "NOT" {
			neg = true
			p.p++
			if !p.isI("IN") {
				p.fail("expected IN after NOT")
			}
		}
		p.p++
		p.expectP("(")
		found := false
		for {
			v := p.parseLiteral()
			if v.str != lhs.str {
				p.fail("IN list element type differs from the column type")
			}
			if (v.str && v.s == lhs.s) || (!v.str && v.i == lhs.i) {
				found = true
			}
			if p.isP(",") {
				p.p++
				continue
			}
			break
		}
		p.expectP(")")
		return found != neg
	}
	p.fail("expected a comparison or IN after a value, have %q", t.S)
	return false
}

func (p *c26Parser) parseLiteral() c26Val64 {
	t := p.peek()
	switch {
	case t.K == 's':
		p.p++
		return c26Val64{str: true, s: t.S}
	case t.K == 'n':
		p.p++
		v, err := strconv.ParseInt(t.S, 10, 64)
		if err != nil {
			p.fail("bad integer %q", t.S)
		}
		return c26Val64{i: v}
	case t.K == 'p' && t.S == "-":
		p.p++
		n := p.peek()
		if n.K != 'n' {
			p.fail("expected a number after '-'")
		}
		p.p++
		v, err := strconv.ParseInt("-"+n.S, 10, 64)
		if err != nil {
			p.fail("bad integer -%q", n.S)
		}
		return c26Val64{i: v}
	}
	p.fail("expected a literal, have %q", t.S)
	return c26Val64{}
}

func (p *c26Parser) parseValue() c26Val64 {
	t := p.peek()
	if t.K != 'i' {
		return p.parseLiteral()
	}
	p.p++
	if p.isP("(") { // function call
		p.p++
		var args []c26Val64
		for {
			args = append(args, p.parseValue())
			if p.isP(",") {
				p.p++
				continue
			}
			break
		}
		p.expectP(")")
		for _, a := range args {
			if a.str {
				p.fail("string argument of %s", t.S)
			}
		}
		switch {
		case t.S == "toUInt32" && len(args) == 1:
			return c26Val64{i: int64(uint32(args[0].i))}
		case t.S == "toInt64" && len(args) == 1:
			return c26Val64{i: args[0].i}
		case t.S == "bitShiftLeft" && len(args) == 2 && args[1].i >= 0 && args[1].i < 64:
			return c26Val64{i: int64(uint64(args[0].i) << uint(args[1].i))}
		case t.S == "bitOr" && len(args) == 2:
			return c26Val64{i: args[0].i | args[1].i}
		}
		p.fail("unknown function %s/%d", t.S, len(args))
	}
	return p.env.resolve(p, t.S)
}

func (r *c26Row) tag(x int) (int32, string) {
	for _, t := range r.Tags {
		if t.X == x {
			return t.V, string(t.S)
		}
	}
	return 0, ""
}

func (e *c26Env) resolve(p *c26Parser, name string) c26Val64 {
	switch name {
	case "time":
		return c26Val64{i: e.row.Time}
	case "metric":
		return c26Val64{i: int64(e.row.Metric)}
	case "index_type":
		return c26Val64{i: e.row.IndexType}
	case "pre_tag":
		return c26Val64{i: e.row.PreTag}
	case "pre_stag":
		return c26Val64{str: true, s: string(e.row.PreStag)}
	case "_prekey":
		if e.prekey < 0 {
			p.fail("_prekey used without a prekey tag")
		}
		v, _ := e.row.tag(e.prekey)
		return c26Val64{i: int64(v)}
	}
	if strings.HasPrefix(name, "stag") {
		if x, err := strconv.Atoi(name[4:]); err == nil && x >= 0 && x < format.MaxTags && strconv.Itoa(x) == name[4:] {
			_, s := e.row.tag(x)
			return c26Val64{str: true, s: s}
		}
	}
	if strings.HasPrefix(name, "tag") {
		if x, err := strconv.Atoi(name[3:]); err == nil && x >= 0 && x < format.MaxTags && strconv.Itoa(x) == name[3:] {
			v, _ := e.row.tag(x)
			return c26Val64{i: int64(v)}
		}
	}
	if expr, ok := e.sel[name]; ok { // alias of a select-list expression
		if e.depth > 2 {
			p.fail("alias recursion")
		}
		e.depth++
		sub := &c26Parser{toks: expr, env: e}
		v := sub.parseValue()
		if sub.p != len(expr) {
			p.fail("alias %s: trailing tokens", name)
		}
		e.depth--
		return v
	}
	p.fail("unknown identifier %q", name)
	return c26Val64{}
}

// c26Split returns the select list items and the where-clause tokens of a lexed query.
func c26Split(toks []c26Tok) (sel map[string][]c26Tok, where []c26Tok, err error) {
	if len(toks) == 0 || toks[0].K != 'i' || toks[0].S != "SELECT" {
		return nil, nil, fmt.Errorf("query does not start with SELECT")
	}
	depth := 0
	from, wh, grp := -1, -1, -1
	for i, t := range toks {
		if t.K == 'p' && t.S == "(" {
			depth++
		} else if t.K == 'p' && t.S == ")" {
			depth--
			if depth < 0 {
				return nil, nil, fmt.Errorf("unbalanced parentheses at byte %d", t.Pos)
			}
		} else if t.K == 'i' && depth == 0 {
			switch {
			case t.S == "FROM" && from < 0:
				from = i
			case t.S == "WHERE" && wh < 0:
				wh = i
			case t.S == "GROUP" && grp < 0:
				grp = i
			}
		}
	}
	if depth != 0 {
		return nil, nil, fmt.Errorf("unbalanced parentheses")
	}
	if !(0 < from && from < wh && wh < grp) {
		return nil, nil, fmt.Errorf("SELECT/FROM/WHERE/GROUP order broken: %d %d %d", from, wh, grp)
	}
	sel = map[string][]c26Tok{}
	start := 1
	depth = 0
	for i := 1; i <= from; i++ {
		t := toks[i]
		if t.K == 'p' && t.S == "(" {
			depth++
		} else if t.K == 'p' && t.S == ")" {
			depth--
		}
		if i == from || (depth == 0 && t.K == 'p' && t.S == ",") {
			item := toks[start:i]
			if n := len(item); n >= 3 && item[n-2].K == 'i' && item[n-2].S == "AS" && item[n-1].K == 'i' {
				sel[item[n-1].S] = item[:n-2]
			}
			start = i + 1
		}
	}
	return sel, toks[wh+1 : grp], nil
}

func c26EvalWhere(c *c26Case, where []c26Tok, sel map[string][]c26Tok, row *c26Row, prekey int) (res bool, err error) {
	defer func() {
		if r := recover(); r != nil {
			if pe, ok := r.(c26ParseErr); ok {
				err = fmt.Errorf("%s", pe.msg)
				return
			}
			panic(r)
		}
	}()
	p := &c26Parser{toks: where, env: &c26Env{c: c, row: row, sel: sel, prekey: prekey}}
	res = p.parseOr()
	if p.p != len(where) {
		p.fail("trailing tokens in the where clause")
	}
	return res, nil
}

// ---- building the query from a case ----

type c26User struct {
	s      string
	tag    int
	re     bool
	expect int // number of literals that must carry this string
}

func c26PH(k int) string { return "vpPH" + strconv.Itoa(k) + "q" }

type c26Built struct {
	sql    string
	metric *format.MetricMetaValue
	users  []c26User
	prekey int
}

var c26Loc = time.FixedZone("MSK", 3*3600)

func c26Metric(c *c26Case) *format.MetricMetaValue {
	m := &format.MetricMetaValue{MetricID: c.MetricID, Name: "vp_metric", Tags: make([]format.MetricMetaTag, c.NumTags)}
	for _, x := range c.RawTags {
		if x > 0 && x < c.NumTags {
			m.Tags[x].RawKind = "int"
		}
	}
	for _, x := range c.Raw64Tags {
		if x > 0 && x < c.NumTags-1 && x < format.MaxTags-2 {
			m.Tags[x].RawKind = "int64"
		}
	}
	if c.PreKeyTag >= 0 && c.PreKeyTag < c.NumTags {
		m.PreKeyTagID = format.TagID(c.PreKeyTag)
		m.PreKeyFrom = 1
	}
	_ = m.RestoreCachedInfo()
	return m
}

func c26Build(c *c26Case, benign bool) (res c26Built, err error) {
	res.prekey = -1
	var metric *format.MetricMetaValue
	m := c26Metric(c)
	if !c.NoMetric {
		metric = m
	}
	res.metric = metric
	b := &queryBuilder{
		metric:     metric,
		user:       "vp",
		by:         append([]int(nil), c.By...),
		sort:       querySort(c.Sort),
		minMaxHost: c.MinMaxHost,
		utcOffset:  c.UTCOffset,
		numResults: c.NumResults,
	}
	for i, w := range c.What {
		if i < tsValueCount {
			b.what[i] = data_model.DigestSelector{What: data_model.DigestWhat(w)}
		}
	}
	if c.NoMetric {
		for _, id := range c.MetricsIn {
			b.filterIn.Metrics = append(b.filterIn.Metrics, &format.MetricMetaValue{MetricID: id})
		}
		for _, id := range c.MetricsNotIn {
			b.filterNotIn.Metrics = append(b.filterNotIn.Metrics, &format.MetricMetaValue{MetricID: id})
		}
	}
	k := 0
	raw := func(x int) bool { return metric != nil && x < len(metric.Tags) && metric.Tags[x].Raw() }
	add := func(dst *data_model.TagFilters, fs []c26Filter) {
		for _, f := range fs {
			hasRe := len(f.Re) != 0
			for _, v := range f.Vals {
				s := string(v.S)
				if (v.Kind == 0 || v.Kind == 1) && s != "" {
					u := c26User{s: s, tag: f.Tag}
					// the value decides something only for a non-raw tag without a regular expression
					if !raw(f.Tag) && !hasRe && !(v.Kind == 0 && v.M == 0 && s == "") {
						u.expect = 1
					}
					res.users = append(res.users, u)
					if benign {
						s = c26PH(k)
					}
					k++
				}
				switch v.Kind {
				case 0:
					dst.Append(f.Tag, data_model.NewTagValue(s, v.M))
				case 1:
					dst.Append(f.Tag, data_model.NewTagValueS(s))
				case 2:
					dst.Append(f.Tag, data_model.NewTagValueM(v.M))
				default:
					dst.Append(f.Tag, data_model.NewTagValue("", 0))
				}
			}
			if hasRe {
				s := string(f.Re)
				u := c26User{s: s, tag: f.Tag, re: true}
				if !raw(f.Tag) {
					u.expect = 1
				}
				res.users = append(res.users, u)
				if benign {
					s = c26PH(k)
				}
				k++
				dst.Tags[f.Tag].Re2 = s
			}
		}
	}
	add(&b.filterIn, c.In)
	add(&b.filterNotIn, c.NotIn)
	lod := data_model.LOD{
		FromSec:  c.From,
		ToSec:    c.To,
		StepSec:  c.StepSec,
		Version:  data_model.Version6,
		Metric:   m,
		Location: c26Loc,
	}
	if metric != nil && metric.PreKeyIndex >= 0 {
		lod.HasPreKey = true
		if c.Mode == 0 {
			res.prekey = metric.PreKeyIndex
		}
	}
	const settings = " SETTINGS optimize_aggregation_in_order=1"
	switch c.Mode {
	case 0:
		q, err := b.buildSeriesQuery(lod, settings)
		if err != nil {
			return res, err
		}
		res.sql = q.body
	case 1, 2:
		if c.ValuesTag >= 0 && metric != nil && c.ValuesTag < len(metric.Tags) {
			b.tag = metric.Tags[c.ValuesTag]
		} else {
			b.tag = format.MetricMetaTag{Index: int32(c.ValuesTag)}
		}
		if c.Mode == 1 {
			res.sql = b.buildTagValuesQuery(lod, settings).body
		} else {
			res.sql = b.buildTagValueIDsQuery(lod, settings).body
		}
	default:
		return res, fmt.Errorf("bad mode")
	}
	return res, nil
}

// ---- reference filter semantics, written from the statement ----

func c26RefInSet(metric *format.MetricMetaValue, f *c26Filter, row *c26Row) (in bool, reOK bool) {
	reOK = true
	raw, raw64 := false, false
	if metric != nil && f.Tag < len(metric.Tags) {
		raw = metric.Tags[f.Tag].Raw()
		raw64 = metric.Tags[f.Tag].Raw64()
	}
	lo, stag := row.tag(f.Tag)
	id := int64(lo)
	if raw64 {
		hi, _ := row.tag(f.Tag + 1)
		id = int64(hi)<<32 | int64(uint32(lo))
	}
	var re *regexp.Regexp
	if len(f.Re) != 0 && !raw {
		var err error
		if re, err = regexp.Compile(string(f.Re)); err != nil {
			return false, false
		}
	}
	for _, v := range f.Vals {
		empty := v.Kind == 3 || (v.Kind == 0 && len(v.S) == 0 && v.M == 0)
		if empty {
			if id == 0 && (raw || stag == "") {
				in = true
			}
			continue
		}
		if (v.Kind == 0 || v.Kind == 2) && v.M == id {
			in = true
		}
		if (v.Kind == 0 || v.Kind == 1) && !raw && len(f.Re) == 0 && string(v.S) == stag {
			in = true
		}
	}
	if re != nil && re.MatchString(stag) {
		in = true
	}
	return in, true
}

func c26RefSelected(c *c26Case, metric *format.MetricMetaValue, row *c26Row) (sel bool, byFilter bool, reOK bool) {
	fixed := row.Time >= c.From && row.Time < c.To && row.IndexType == 0 && row.PreTag == 0 && len(row.PreStag) == 0
	if !c.NoMetric {
		fixed = fixed && row.Metric == c.MetricID
	} else {
		if len(c.MetricsIn) != 0 {
			ok := false
			for _, id := range c.MetricsIn {
				ok = ok || id == row.Metric
			}
			fixed = fixed && ok
		}
		for _, id := range c.MetricsNotIn {
			fixed = fixed && id != row.Metric
		}
	}
	pass := true
	for i := range c.In {
		in, ok := c26RefInSet(metric, &c.In[i], row)
		if !ok {
			return false, false, false
		}
		pass = pass && in
	}
	for i := range c.NotIn {
		in, ok := c26RefInSet(metric, &c.NotIn[i], row)
		if !ok {
			return false, false, false
		}
		pass = pass && !in
	}
	return fixed && pass, fixed && !pass, true
}

// ---- the property ----

func c26Prop(t vpT, c c26Case) (nontrivial bool, classes []string) {
	hostile, err := c26Build(&c, false)
	if err != nil {
		t.Fatalf("query builder failed: %v", err)
	}
	benign, err := c26Build(&c, true)
	if err != nil {
		t.Fatalf("query builder failed on the benign variant: %v", err)
	}
	// (1)
	ht, err := c26Lex(hostile.sql)
	if err != nil {
		t.Fatalf("query does not tokenise: %v\nSQL: %q", err, hostile.sql)
	}
	bt, err := c26Lex(benign.sql)
	if err != nil {
		t.Fatalf("benign query does not tokenise: %v\nSQL: %q", err, benign.sql)
	}
	// (2)
	hs, bs := c26Skeleton(ht), c26Skeleton(bt)
	if len(hs) != len(bs) {
		t.Fatalf("token count depends on filter values: %d vs %d\nSQL:    %q\nbenign: %q", len(hs), len(bs), hostile.sql, benign.sql)
	}
	for i := range hs {
		if hs[i] != bs[i] {
			t.Fatalf("token %d depends on filter values: %q vs %q\nSQL:    %q\nbenign: %q", i, hs[i], bs[i], hostile.sql, benign.sql)
		}
	}
	// (3)
	seen := make([]int, len(hostile.users))
	for i := range ht {
		if ht[i].K != 's' {
			continue
		}
		k := -1
		for j := range hostile.users {
			if bt[i].S == c26PH(j) {
				k = j
			}
		}
		if k < 0 {
			if strings.Contains(bt[i].S, "vpPH") {
				t.Fatalf("literal %q mixes a user string with other text\nbenign: %q", bt[i].S, benign.sql)
			}
			if ht[i].S != bt[i].S {
				t.Fatalf("fixed literal changed with the filter values: %q vs %q\nSQL: %q", ht[i].S, bt[i].S, hostile.sql)
			}
			continue
		}
		seen[k]++
		if ht[i].S != hostile.users[k].s {
			t.Fatalf("literal for user string %q decodes to %q\nSQL: %q", hostile.users[k].s, ht[i].S, hostile.sql)
		}
	}
	for k, u := range hostile.users {
		if seen[k] != u.expect {
			t.Fatalf("user string %d (%q, tag %d, regex=%v) appears in %d literals, want %d\nSQL: %q", k, u.s, u.tag, u.re, seen[k], u.expect, hostile.sql)
		}
	}
	// (4)
	sel, where, err := c26Split(ht)
	if err != nil {
		t.Fatalf("query structure: %v\nSQL: %q", err, hostile.sql)
	}
	nSel, nRej, reBad := 0, 0, false
	for i := range c.Rows {
		row := &c.Rows[i]
		want, byFilter, reOK := c26RefSelected(&c, hostile.metric, row)
		if !reOK {
			reBad = true // the regular expression does not compile: callers never pass such a filter, semantics undefined
			break
		}
		got, err := c26EvalWhere(&c, where, sel, row, hostile.prekey)
		if err != nil {
			t.Fatalf("where clause: %v\nSQL: %q", err, hostile.sql)
		}
		if got != want {
			t.Fatalf("row %d: where clause selects=%v, requested filters select=%v\nrow: %+v\nSQL: %q", i, got, want, *row, hostile.sql)
		}
		if want {
			nSel++
		} else if byFilter {
			nRej++
		}
	}
	// classes
	quote, bslash, trail, nul, badUTF, hasRe := false, false, false, false, false, false
	for _, u := range hostile.users {
		if u.expect == 0 {
			continue
		}
		quote = quote || strings.Contains(u.s, "'")
		bslash = bslash || strings.Contains(u.s, `\`)
		trail = trail || strings.HasSuffix(u.s, `\`)
		nul = nul || strings.Contains(u.s, "\x00")
		badUTF = badUTF || !utf8.ValidString(u.s)
		hasRe = hasRe || u.re
	}
	add := func(b bool, name string) {
		if b {
			classes = append(classes, name)
		}
	}
	add(quote, "quote")
	add(bslash, "backslash")
	add(trail, "trailing-backslash")
	add(nul, "nul")
	add(badUTF, "invalid-utf8")
	add(hasRe, "regex")
	add(reBad, "regex-does-not-compile")
	add(c.Mode == 0, "series")
	add(c.Mode == 1, "tag-values")
	add(c.Mode == 2, "tag-value-ids")
	add(len(c.NotIn) != 0, "not-in")
	add(len(c.In) != 0, "in")
	add(hostile.prekey >= 0, "prekey")
	add(c.NoMetric, "no-metric")
	add(c.StepSec == _1M, "monthly")
	add(nSel > 0, "row-selected")
	add(nRej > 0, "row-rejected-by-filter")
	add(nSel > 0 && nRej > 0, "rows-both")
	if m := hostile.metric; m != nil {
		r, r64 := false, false
		for _, fs := range [][]c26Filter{c.In, c.NotIn} {
			for _, f := range fs {
				if f.Tag < len(m.Tags) {
					r = r || m.Tags[f.Tag].Raw()
					r64 = r64 || m.Tags[f.Tag].Raw64()
				}
			}
		}
		add(r, "raw-tag")
		add(r64, "raw64-tag")
	}
	for _, fs := range [][]c26Filter{c.In, c.NotIn} {
		for _, f := range fs {
			for _, v := range f.Vals {
				if v.Kind == 3 {
					add(true, "empty-value")
				}
			}
		}
	}
	sort.Strings(classes)
	classes = c26Uniq(classes)
	return quote || bslash, classes
}

func c26Uniq(s []string) []string {
	res := s[:0]
	for i, v := range s {
		if i == 0 || v != s[i-1] {
			res = append(res, v)
		}
	}
	return res
}

// ---- generators ----

var c26Pieces = []string{
	"a", "b", "staging", "production", "1", "0", " ", "%", "_", ".", "-", "--", "/*", "*/", ";", ",", "(", ")", "))", "=",
	"'", "''", "'''", `\`, `\\`, `\'`, `\\'`, `'\`, `\''`, `"`, "`", "$$",
	"')) OR 1=1 --", "' OR '1'='1", "') OR (''='", "','", "',0x27,'", `\') OR 1=1 --`, "'; DROP TABLE statshouse_v6_1s; --",
	"' UNION SELECT 1 --", ") AND (0=0", "vpPH0q",
	"\x00", "\n", "\r", "\t", "\b", "\x1a", "\x7f", `\0`, `\n`, `\x27`, `\N`, `'`,
	"é", "ж", "漢", "\U0001f600", "ʼ", "＇", "\xbf\x27", "\xbf\\", "\xff", "\xc0\xa7", "\xe2\x80",
}

var c26RePieces = []string{
	"a", "b", "1", "x", ".", ".*", ".+", "a+", "b?", "[ab]", "[a-z']", "[^']", `[^\\]`, `\.`, `\'`, `\\`, `\\\\`, "'", "''", "^", "$", "(a|b)", "(?:')", "|",
	`\d`, `\d+`, `\w*`, `\s`, `\x27`, `\x5c`, `\x{27}`, "(?i)", "a{1,2}", `\Q'\E`, `\z`, "é", `\pL`, "')) OR 1=1 --", `\') OR match(stag1,'`,
}

var c26RowAlphabet = []string{"a", "b", "1", "x", "'", `\`, ".", " ", "é", "\n", "ab", "''", `\'`, "staging"}

func c26GenBytes(t *rapid.T, pieces []string, maxPieces int, label string) []byte {
	n := rapid.IntRange(1, maxPieces).Draw(t, label+"-n")
	var b []byte
	for i := 0; i < n; i++ {
		if rapid.IntRange(0, 11).Draw(t, label+"-rawbyte") == 0 {
			b = append(b, rapid.Byte().Draw(t, label+"-byte"))
			continue
		}
		b = append(b, rapid.SampledFrom(pieces).Draw(t, label+"-piece")...)
	}
	return b
}

func c26GenMapped(t *rapid.T) int64 {
	switch rapid.IntRange(0, 9).Draw(t, "mkind") {
	case 0:
		return int64(format.TagValueIDDoesNotExist)
	case 1:
		return 0
	case 2:
		return rapid.Int64().Draw(t, "m64")
	case 3:
		return int64(rapid.Int32().Draw(t, "m32"))
	case 4:
		return -int64(rapid.IntRange(1, 5).Draw(t, "mneg"))
	default:
		return int64(rapid.IntRange(1, 9).Draw(t, "msmall"))
	}
}

func c26GenFilter(t *rapid.T, tag int) c26Filter {
	f := c26Filter{Tag: tag}
	nv := rapid.IntRange(0, 4).Draw(t, "nvals")
	for i := 0; i < nv; i++ {
		var v c26Val
		switch rapid.IntRange(0, 9).Draw(t, "vkind") {
		case 0, 1, 2, 3:
			v = c26Val{Kind: 0, S: c26GenBytes(t, c26Pieces, 4, "val"), M: c26GenMapped(t)}
		case 4, 5, 6:
			v = c26Val{Kind: 1, S: c26GenBytes(t, c26Pieces, 4, "val")}
			if rapid.IntRange(0, 9).Draw(t, "emptystr") == 0 {
				v.S = nil
			}
		case 7, 8:
			v = c26Val{Kind: 2, M: c26GenMapped(t)}
		default:
			v = c26Val{Kind: 3}
		}
		f.Vals = append(f.Vals, v)
	}
	if nv == 0 || rapid.IntRange(0, 3).Draw(t, "hasre") == 0 {
		if rapid.IntRange(0, 5).Draw(t, "rehostile") == 0 {
			f.Re = c26GenBytes(t, c26Pieces, 3, "re")
		} else {
			f.Re = c26GenBytes(t, c26RePieces, 4, "re")
		}
	}
	return f
}

func c26GenRowTag(t *rapid.T, c *c26Case, x int) c26RowTag {
	rt := c26RowTag{X: x}
	var fs []*c26Filter
	for i := range c.In {
		if c.In[i].Tag == x {
			fs = append(fs, &c.In[i])
		}
	}
	for i := range c.NotIn {
		if c.NotIn[i].Tag == x {
			fs = append(fs, &c.NotIn[i])
		}
	}
	var vals []c26Val
	for _, f := range fs {
		vals = append(vals, f.Vals...)
	}
	// also the low/high halves of a raw64 neighbour
	for _, f := range append(append([]c26Filter(nil), c.In...), c.NotIn...) {
		if f.Tag+1 == x {
			for _, v := range f.Vals {
				vals = append(vals, c26Val{Kind: 2, M: v.M >> 32})
			}
		}
	}
	randStr := func() []byte {
		n := rapid.IntRange(0, 3).Draw(t, "rs-n")
		var b []byte
		for i := 0; i < n; i++ {
			b = append(b, rapid.SampledFrom(c26RowAlphabet).Draw(t, "rs-p")...)
		}
		return b
	}
	switch k := rapid.IntRange(0, 9).Draw(t, "rowtag-kind"); {
	case k <= 2 && len(vals) != 0: // mapped hit
		rt.V = int32(rapid.SampledFrom(vals).Draw(t, "hit").M)
	case k <= 5 && len(vals) != 0: // string hit
		rt.S = rapid.SampledFrom(vals).Draw(t, "hit").S
	case k == 6: // empty
	case k == 7:
		rt.V = rapid.Int32Range(-3, 9).Draw(t, "rv")
	case k == 8:
		rt.S = randStr()
	default:
		rt.V = rapid.Int32Range(0, 2).Draw(t, "rv")
		rt.S = randStr()
	}
	return rt
}

func c26Gen() *rapid.Generator[c26Case] {
	steps := []int64{1, 5, 15, 60, 300, 900, 3600, 4 * 3600, 24 * 3600, 7 * 24 * 3600, _1M}
	whats := []int{int(data_model.DigestAvg), int(data_model.DigestCount), int(data_model.DigestMax), int(data_model.DigestMin), int(data_model.DigestSum),
		int(data_model.DigestPercentile), int(data_model.DigestStdDev), int(data_model.DigestCardinality), int(data_model.DigestUnique)}
	return rapid.Custom(func(t *rapid.T) c26Case {
		c := c26Case{PreKeyTag: -1}
		c.Mode = rapid.SampledFrom([]int{0, 0, 0, 1, 1, 2}).Draw(t, "mode")
		c.MetricID = rapid.Int32Range(1, 5).Draw(t, "metric")
		if rapid.IntRange(0, 9).Draw(t, "negmetric") == 0 {
			c.MetricID = -c.MetricID // builtin metrics have negative ids
		}
		c.NumTags = rapid.SampledFrom([]int{0, 2, 4, 8, 16, 48}).Draw(t, "ntags")
		// tags used by filters: a small pool so that In and NotIn collide on a tag often
		pool := []int{0, 1, 2, 3, 5, 15, 46, format.StringTopTagIndexV3}
		tagGen := rapid.SampledFrom(pool)
		for i := 1; i < c.NumTags; i++ {
			switch rapid.IntRange(0, 7).Draw(t, "tagkind") {
			case 0:
				c.RawTags = append(c.RawTags, i)
			case 1:
				if i < c.NumTags-1 && i < format.MaxTags-2 {
					c.Raw64Tags = append(c.Raw64Tags, i)
					i++ // the next tag is the high half
				}
			}
		}
		if c.Mode == 0 && rapid.IntRange(0, 9).Draw(t, "nometric") == 0 {
			c.NoMetric = true
			c.RawTags, c.Raw64Tags = nil, nil
			ids := rapid.SliceOfNDistinct(rapid.Int32Range(1, 6), 1, 5, rapid.ID[int32]).Draw(t, "metric-ids")
			k := rapid.IntRange(0, len(ids)).Draw(t, "metric-split")
			c.MetricsIn, c.MetricsNotIn = ids[:k], ids[k:]
		}
		// No prekey metrics: the "_prekey"/"pre_tag" branches of the builder address columns of the retired V2 prekey
		// tables (the V6 schema has no _prekey column and the builder pins pre_tag=0), so their row semantics is undefined.
		if c.Mode == 0 {
			c.By = rapid.SliceOfNDistinct(rapid.SampledFrom([]int{0, 1, 2, 3, 5, 15, format.StringTopTagIndexV3, format.ShardTagIndex}), 0, 3, rapid.ID[int]).Draw(t, "by")
			sort.Ints(c.By)
			c.Sort = rapid.IntRange(0, 2).Draw(t, "sort")
			c.MinMaxHost = [2]bool{rapid.Bool().Draw(t, "minhost"), rapid.Bool().Draw(t, "maxhost")}
		}
		c.What = rapid.SliceOfN(rapid.SampledFrom(whats), 1, 3).Draw(t, "what")
		c.StepSec = rapid.SampledFrom(steps).Draw(t, "step")
		c.From = rapid.Int64Range(0, 2_000_000_000).Draw(t, "from")
		c.To = c.From + rapid.Int64Range(1, 100_000).Draw(t, "len")
		c.UTCOffset = rapid.SampledFrom([]int64{0, 3 * 3600, 3*86400 + 3*3600, 86400, 5*3600 + 1800}).Draw(t, "utc")
		c.ValuesTag = rapid.SampledFrom([]int{0, 1, 2, 3, 5, 15, format.StringTopTagIndexV3, format.StringTopTagIndex}).Draw(t, "values-tag")
		c.NumResults = rapid.IntRange(0, 1000).Draw(t, "num-results")
		inTags := rapid.SliceOfNDistinct(tagGen, 0, 3, rapid.ID[int]).Draw(t, "in-tags")
		notInTags := rapid.SliceOfNDistinct(tagGen, 0, 3, rapid.ID[int]).Draw(t, "notin-tags")
		if len(inTags)+len(notInTags) == 0 {
			inTags = []int{1}
		}
		for _, x := range inTags {
			c.In = append(c.In, c26GenFilter(t, x))
		}
		for _, x := range notInTags {
			c.NotIn = append(c.NotIn, c26GenFilter(t, x))
		}
		// rows
		used := map[int]bool{}
		for _, x := range inTags {
			used[x] = true
		}
		for _, x := range notInTags {
			used[x] = true
		}
		for _, x := range c.Raw64Tags {
			if used[x] {
				used[x+1] = true
			}
		}
		var xs []int
		for x := range used {
			xs = append(xs, x)
		}
		sort.Ints(xs)
		nrows := rapid.IntRange(2, 6).Draw(t, "nrows")
		for i := 0; i < nrows; i++ {
			row := c26Row{Time: c.From + rapid.Int64Range(0, c.To-c.From-1).Draw(t, "row-time"), Metric: c.MetricID}
			if c.NoMetric {
				row.Metric = rapid.Int32Range(1, 6).Draw(t, "row-metric")
			}
			switch rapid.IntRange(0, 29).Draw(t, "row-fixed") {
			case 0:
				row.Time = c.To
			case 1:
				row.Time = c.From - 1
			case 2:
				row.Metric++
			case 3:
				row.IndexType = 1
			case 4:
				row.PreTag = 7
			case 5:
				row.PreStag = []byte("x")
			}
			for _, x := range xs {
				row.Tags = append(row.Tags, c26GenRowTag(t, &c, x))
			}
			c.Rows = append(c.Rows, row)
		}
		return c
	})
}

func TestVerifC26Filters(t *testing.T) {
	ev := vpNewEv(t, "C26", "filters")
	rapid.Check(t, func(rt *rapid.T) {
		c := c26Gen().Draw(rt, "case")
		vpRunCase(rt, "C26", "filters", c, func() {
			nt, cls := c26Prop(rt, c)
			ev.Case(nt, c, cls...)
		})
	})
}

// ---- self-test of the lexer/decoder on hand-written ClickHouse literals (guards the oracle itself) ----

func TestVerifC26LexerSelfTest(t *testing.T) {
	ev := vpNewEv(t, "C26", "lexer-selftest")
	good := []struct{ sql, lit string }{
		{`SELECT 'a'`, "a"}, {`SELECT 'a\'b'`, "a'b"}, {`SELECT 'a\\'`, `a\`}, {`SELECT 'a''b'`, "a'b"}, {`SELECT ''`, ""},
		{`SELECT '\\\''`, `\'`}, {`SELECT '--'`, "--"}, {`SELECT '\n'`, "\n"}, {`SELECT '\x27'`, "'"}, {`SELECT '\%'`, `\%`},
	}
	for _, g := range good {
		toks, err := c26Lex(g.sql)
		if err != nil || len(toks) != 2 || toks[1].K != 's' || toks[1].S != g.lit {
			t.Fatalf("lexer self-test: %q -> %+v, %v (want literal %q)", g.sql, toks, err, g.lit)
		}
		ev.Case(true, g.sql, "selftest-good")
	}
	bad := []string{`SELECT 'a`, `SELECT 'a\'`, `SELECT 1 -- x`, `SELECT 1 /* x */`, "SELECT `a`", `SELECT "a"`, `SELECT 1;`, "SELECT\n1", `SELECT '''`, `SELECT 1a`, "SELECT \x00"}
	for _, b := range bad {
		if toks, err := c26Lex(b); err == nil {
			t.Fatalf("lexer self-test: %q accepted: %+v", b, toks)
		}
		ev.Case(true, b, "selftest-bad")
	}
	// 'a'b' must not be one literal
	toks, err := c26Lex(`SELECT 'a'b'`)
	if err == nil {
		t.Fatalf("lexer self-test: unbalanced literal accepted: %+v", toks)
	}
}

// ---- native fuzz targets (thorough tier) ----

// FuzzVerifC26Value puts one byte string into every role a user string can take in a small fixed query.
func FuzzVerifC26Value(f *testing.F) {
	for _, s := range c26Pieces {
		f.Add([]byte(s), []byte("x"+s))
	}
	f.Fuzz(func(t *testing.T, a []byte, b []byte) {
		if len(a)+len(b) > 2048 { // the mutator grows inputs to megabytes; regexp compilation of those only burns the budget
			t.Skip()
		}
		for mode := 0; mode < 3; mode++ {
			for role := 0; role < 2; role++ {
				c := c26Case{Mode: mode, MetricID: 7, NumTags: 4, RawTags: []int{3}, PreKeyTag: -1, What: []int{int(data_model.DigestCount)},
					StepSec: 60, From: 600, To: 1200, UTCOffset: 3 * 3600, ValuesTag: 1, NumResults: 10}
				if role == 0 {
					c.In = []c26Filter{{Tag: 1, Vals: []c26Val{{Kind: 0, S: a, M: 5}, {Kind: 1, S: b}}}, {Tag: 3, Vals: []c26Val{{Kind: 0, S: a, M: 6}}}}
					c.NotIn = []c26Filter{{Tag: 2, Vals: []c26Val{{Kind: 1, S: b}, {Kind: 3}, {Kind: 1, S: a}}}}
				} else {
					c.In = []c26Filter{{Tag: 1, Vals: []c26Val{{Kind: 0, S: b, M: 5}}, Re: a}}
					c.NotIn = []c26Filter{{Tag: 2, Re: b}, {Tag: 3, Re: a}}
				}
				for _, s := range [][]byte{a, b, nil, append(append([]byte(nil), a...), b...)} {
					for _, s2 := range [][]byte{a, b, nil} {
						c.Rows = append(c.Rows, c26Row{Time: 700, Metric: 7, Tags: []c26RowTag{{X: 1, S: s}, {X: 2, S: s2}}})
					}
				}
				c.Rows = append(c.Rows, c26Row{Time: 700, Metric: 7, Tags: []c26RowTag{{X: 1, V: 5}, {X: 3, V: 6}}})
				vpRunCase(t, "C26", "filters", c, func() { c26Prop(t, c) })
			}
		}
	})
}

// FuzzVerifC26Case drives the rapid generator from the fuzzer's byte stream (coverage-guided search over whole cases).
func FuzzVerifC26Case(f *testing.F) {
	f.Add([]byte{0})
	f.Add(bytes.Repeat([]byte{0xff, 0x01, 0x80, 0x27, 0x5c}, 60))
	f.Fuzz(rapid.MakeFuzz(func(rt *rapid.T) {
		c := c26Gen().Draw(rt, "case")
		vpRunCase(rt, "C26", "filters", c, func() { c26Prop(rt, c) })
	}))
}

func init() {
	vpReplayers["C26/filters"] = func(t vpT, raw json.RawMessage) {
		var c c26Case
		if err := json.Unmarshal(raw, &c); err != nil {
			t.Fatalf("decode: %v", err)
		}
		c26Prop(t, c)
	}
}
