//go:build verif

package api

import (
	"context"
	"encoding/json"
	"fmt"
	"testing"
	"time"

	"pgregory.net/rapid"

	"github.com/VKCOM/statshouse/internal/data_model"
)

// ---------- C24: the points cache never serves rows older than an invalidation ----------
//
// A history of get / invalidate / advance-clock operations runs against a real pointsCache with an injected clock and a
// stub loader that stamps every row with a load number. Invalidations and clock advances may also happen while a load is
// in progress. The oracle is one-directional, as the statement is: a result served from the cache (loader not called) for a
// range that reaches into the mutable window must not contain a second that was invalidated at or after the start of
// the load that produced it, allowing the replication linger. The freshness rule is written from the statement; only the
// two constants (window, linger) are read from the code. The size bound is checked after every operation.

type c24Op struct {
	Kind   int     `json:"kind"`             // 0 get, 1 invalidate, 2 advance clock
	Q      int     `json:"q,omitempty"`      // get: query
	From   int64   `json:"from,omitempty"`   // get: range [from,to), UNIX seconds
	To     int64   `json:"to,omitempty"`     //
	Avoid  bool    `json:"avoid,omitempty"`  // get: avoid cache
	Rows   int     `json:"rows,omitempty"`   // get: number of rows the storage returns
	Fail   bool    `json:"fail,omitempty"`   // get: storage fails
	During []c24Op `json:"during,omitempty"` // get: invalidations / clock advances that happen while the storage query runs
	Secs   []int64 `json:"secs,omitempty"`   // invalidate: seconds
	Delta  int64   `json:"delta,omitempty"`  // advance: nanoseconds
}

type c24Case struct {
	MaxSize   int     `json:"max_size"`
	UTCOffset int64   `json:"utc_offset"`
	StartNano int64   `json:"start_nano"`
	Ops       []c24Op `json:"ops"`
}

type c24Load struct {
	startNano int64
	rows      int
}

type c24RangeKey struct {
	q        int
	from, to int64
}

func c24Prop(t vpT, c c24Case) (nontrivial bool, classes []string) {
	window := -int64(invalidateFrom) // mutable window, nanoseconds
	linger := int64(invalidateLinger)
	clock := c.StartNano
	now := func() time.Time { return time.Unix(0, clock) }
	var (
		loads       []c24Load
		loaderCalls int
		curOp       *c24Op
		cache       *pointsCache
		invalAt     = map[int64]int64{}       // second -> time of its last invalidation
		lastLoad    = map[c24RangeKey]int{}   // (query, range) -> last load that was put into the cache
		maxResult   int
		cls         = map[string]bool{}
	)
	applyInvalidate := func(secs []int64) {
		cache.invalidate(secs)
		for _, s := range secs {
			if at, ok := invalAt[s]; !ok || at < clock {
				invalAt[s] = clock
			}
		}
	}
	loader := func(_ context.Context, _ *requestHandler, _ *queryBuilder, _ data_model.LOD) ([]pSelectRow, error) {
		loaderCalls++
		id := len(loads)
		loads = append(loads, c24Load{startNano: clock, rows: curOp.Rows})
		for _, d := range curOp.During {
			switch d.Kind {
			case 1:
				applyInvalidate(d.Secs)
				cls["invalidate-during-load"] = true
			case 2:
				clock += d.Delta
			}
		}
		if curOp.Fail {
			return nil, fmt.Errorf("storage failed")
		}
		rows := make([]pSelectRow, curOp.Rows)
		for i := range rows {
			rows[i].count = float64(id)
		}
		return rows, nil
	}
	cache = newPointsCache(c.MaxSize, c.UTCOffset, loader, now)
	h := &requestHandler{Handler: &Handler{}}
	checkSize := func(step int) {
		actual := len(cache.cache)
		for _, e := range cache.cache {
			actual += len(e.rows)
			for _, cr := range e.rows {
				actual += len(cr.rows)
			}
		}
		bound := c.MaxSize + maxResult + 1
		if actual > bound {
			t.Fatalf("op %d: cache holds %d entries+ranges+rows, bound is %d (limit %d + largest result %d + 1)", step, actual, bound, c.MaxSize, maxResult)
		}
		if cache.size+len(cache.cache) > bound {
			t.Fatalf("op %d: accounted cache size %d exceeds the bound %d", step, cache.size+len(cache.cache), bound)
		}
		if cache.size < 0 {
			t.Fatalf("op %d: accounted cache size is negative: %d", step, cache.size)
		}
	}
	for i := range c.Ops {
		op := &c.Ops[i]
		switch op.Kind {
		case 1:
			applyInvalidate(op.Secs)
		case 2:
			clock += op.Delta
		case 0:
			if op.Rows > maxResult {
				maxResult = op.Rows
			}
			curOp = op
			before := loaderCalls
			entriesBefore := len(cache.cache)
			getAt := clock
			pq := &queryBuilder{cacheKey: fmt.Sprintf("query-%d", op.Q)}
			rows, err := cache.get(context.Background(), h, pq, data_model.LOD{FromSec: op.From, ToSec: op.To, StepSec: 1, Version: data_model.Version6}, op.Avoid)
			called := loaderCalls != before
			rk := c24RangeKey{op.Q, op.From, op.To}
			if called {
				if op.Fail {
					if err == nil {
						t.Fatalf("op %d: storage error swallowed", i)
					}
					cls["load-failed"] = true
					break
				}
				if err != nil {
					t.Fatalf("op %d: unexpected error %v", i, err)
				}
				id := len(loads) - 1
				if len(rows) != op.Rows {
					t.Fatalf("op %d: %d rows returned, storage gave %d", i, len(rows), op.Rows)
				}
				if _, had := lastLoad[rk]; had && !op.Avoid {
					if _, stale := c24Stale(invalAt, op.From, op.To, getAt, window, linger, loads[lastLoad[rk]].startNano); stale {
						cls["reload-after-invalidation"] = true
					}
				}
				if !op.Avoid {
					lastLoad[rk] = id
					if len(cache.cache) < entriesBefore+1 && entriesBefore > 0 {
						if _, same := cache.cache[pq.cacheKey]; !same || len(cache.cache) < entriesBefore {
							cls["eviction"] = true
						}
					}
				} else {
					cls["avoid-cache"] = true
				}
				break
			}
			// served from the cache
			if op.Avoid {
				t.Fatalf("op %d: avoid-cache request served without asking the storage", i)
			}
			if err != nil {
				t.Fatalf("op %d: error %v without a storage call", i, err)
			}
			id, ok := lastLoad[rk]
			if !ok {
				t.Fatalf("op %d: query %d range [%d,%d) served from the cache but was never loaded", i, op.Q, op.From, op.To)
			}
			if len(rows) != loads[id].rows {
				t.Fatalf("op %d: cached result has %d rows, load %d produced %d", i, len(rows), id, loads[id].rows)
			}
			for _, r := range rows {
				if int(r.count) != id {
					t.Fatalf("op %d: cached result of range [%d,%d) carries rows of load %d, last load of this range is %d", i, op.From, op.To, int(r.count), id)
				}
			}
			cls["cache-hit"] = true
			if at, stale := c24Stale(invalAt, op.From, op.To, getAt, window, linger, loads[id].startNano); stale {
				t.Fatalf("op %d: stale rows served from the cache: query %d range [%d,%d), load started at %d ns, a second of the range inside the mutable window was invalidated at %d ns (linger %d ns, now %d ns)",
					i, op.Q, op.From, op.To, loads[id].startNano, at, linger, getAt)
			}
			if op.To*1e9 < getAt-window {
				cls["hit-outside-window"] = true
			}
			// non-trivial: hit after an invalidation of a second outside this range (typically another range of the query)
			for s := range invalAt {
				if s < op.From || s >= op.To {
					cls["hit-after-invalidation-elsewhere"] = true
					nontrivial = true
					break
				}
			}
			for s, at := range invalAt {
				if s >= op.From && s < op.To {
					cls["hit-with-old-invalidation-inside"] = true
					if d := loads[id].startNano - (at + linger); d >= 1 && d <= 1_000_000_000 {
						cls["hit-just-after-linger"] = true
					}
				}
			}
		}
		checkSize(i)
	}
	if len(cache.cache) > 0 && len(lastLoad) > len(cache.cache) {
		cls["several-ranges-or-evicted"] = true
	}
	for k := range cls {
		classes = append(classes, k)
	}
	sortStrings(classes)
	return nontrivial, classes
}

func sortStrings(s []string) {
	for i := 1; i < len(s); i++ {
		for j := i; j > 0 && s[j] < s[j-1]; j-- {
			s[j], s[j-1] = s[j-1], s[j]
		}
	}
}

// c24Stale: the freshness rule of the statement. A cached result of [from,to) loaded from loadStart on is stale at
// time now if some second of the range that lies in the mutable window (now-window, ...) was invalidated at or after
// loadStart-linger.
func c24Stale(invalAt map[int64]int64, from, to, now, window, linger, loadStart int64) (int64, bool) {
	for s, at := range invalAt {
		if s < from || s >= to {
			continue
		}
		if s*1_000_000_000 < now-window { // the second is outside the mutable window
			continue
		}
		if at >= loadStart-linger {
			return at, true
		}
	}
	return 0, false
}

func c24Gen() *rapid.Generator[c24Case] {
	const sec = int64(time.Second)
	deltas := []int64{1, sec, int64(invalidateLinger) - 1, int64(invalidateLinger), int64(invalidateLinger) + 1, 16 * sec, 60 * sec, 3600 * sec, 13 * 3600 * sec, 47 * 3600 * sec}
	return rapid.Custom(func(t *rapid.T) c24Case {
		var c c24Case
		c.MaxSize = rapid.SampledFrom([]int{1, 3, 8, 20, 1000}).Draw(t, "max-size")
		c.UTCOffset = rapid.SampledFrom([]int64{0, 3 * 3600, 19800, 3*86400 + 3*3600}).Draw(t, "utc")
		start := rapid.Int64Range(1_600_000_000, 1_900_000_000).Draw(t, "start")
		c.StartNano = start*sec + rapid.SampledFrom([]int64{0, 0, 1, 500_000_000, 999_999_999}).Draw(t, "start-ns")
		clock := c.StartNano
		// a few ranges the history keeps coming back to
		type rng struct{ from, to int64 }
		nr := rapid.IntRange(1, 3).Draw(t, "nranges")
		var ranges []rng
		for i := 0; i < nr; i++ {
			var age int64
			switch rapid.IntRange(0, 4).Draw(t, "agekind") {
			case 0:
				age = rapid.Int64Range(0, 120).Draw(t, "age")
			case 1:
				age = rapid.Int64Range(0, 4*3600).Draw(t, "age")
			case 2:
				age = 48*3600 + rapid.Int64Range(-4000, 4000).Draw(t, "age")
			case 3:
				age = rapid.Int64Range(0, 50*3600).Draw(t, "age")
			default:
				age = -rapid.Int64Range(0, 3600).Draw(t, "age") // reaches into the future
			}
			from := start - age
			if g := rapid.SampledFrom([]int64{1, 1, 60, 3600}).Draw(t, "grid"); g > 1 {
				from -= from % g
			}
			length := rapid.SampledFrom([]int64{1, 2, 59, 60, 61, 120, 3600, 3601, 7200, 86400, 3 * 86400}).Draw(t, "len")
			ranges = append(ranges, rng{from, from + length})
		}
		genSecs := func(label string) []int64 {
			n := rapid.IntRange(1, 3).Draw(t, label+"-n")
			var secs []int64
			for i := 0; i < n; i++ {
				r := ranges[rapid.IntRange(0, len(ranges)-1).Draw(t, label+"-range")]
				switch rapid.IntRange(0, 5).Draw(t, label+"-kind") {
				case 0:
					secs = append(secs, r.from)
				case 1:
					secs = append(secs, r.to-1)
				case 2:
					secs = append(secs, r.to) // just outside
				case 3:
					secs = append(secs, r.from-1) // just outside
				case 4:
					secs = append(secs, clock/sec-rapid.Int64Range(0, 50*3600).Draw(t, label+"-age"))
				default:
					secs = append(secs, r.from+rapid.Int64Range(0, r.to-r.from-1).Draw(t, label+"-off"))
				}
			}
			return secs
		}
		nops := rapid.IntRange(3, 18).Draw(t, "nops")
		for i := 0; i < nops; i++ {
			switch k := rapid.IntRange(0, 9).Draw(t, "opkind"); {
			case k <= 5:
				r := ranges[rapid.IntRange(0, len(ranges)-1).Draw(t, "get-range")]
				op := c24Op{Kind: 0, Q: rapid.SampledFrom([]int{0, 0, 0, 1, 1, 2}).Draw(t, "q"), From: r.from, To: r.to,
					Rows: rapid.SampledFrom([]int{0, 1, 1, 2, 5}).Draw(t, "rows")}
				op.Avoid = rapid.IntRange(0, 19).Draw(t, "avoid") == 0
				op.Fail = rapid.IntRange(0, 19).Draw(t, "fail") == 0
				if rapid.IntRange(0, 3).Draw(t, "during") == 0 {
					nd := rapid.IntRange(1, 2).Draw(t, "nduring")
					for j := 0; j < nd; j++ {
						if rapid.Bool().Draw(t, "during-adv") {
							d := rapid.SampledFrom(deltas[:7]).Draw(t, "during-delta")
							op.During = append(op.During, c24Op{Kind: 2, Delta: d})
							clock += d
						} else {
							op.During = append(op.During, c24Op{Kind: 1, Secs: genSecs("during-secs")})
						}
					}
				}
				c.Ops = append(c.Ops, op)
			case k <= 7:
				c.Ops = append(c.Ops, c24Op{Kind: 1, Secs: genSecs("secs")})
			default:
				d := rapid.SampledFrom(deltas).Draw(t, "delta")
				c.Ops = append(c.Ops, c24Op{Kind: 2, Delta: d})
				clock += d
			}
		}
		return c
	})
}

func TestVerifC24PointsCache(t *testing.T) {
	ev := vpNewEv(t, "C24", "history")
	rapid.Check(t, func(rt *rapid.T) {
		c := c24Gen().Draw(rt, "case")
		vpRunCase(rt, "C24", "history", c, func() {
			nt, cls := c24Prop(rt, c)
			ev.Case(nt, c, cls...)
		})
	})
}

func init() {
	vpReplayers["C24/history"] = func(t vpT, raw json.RawMessage) {
		var c c24Case
		if err := json.Unmarshal(raw, &c); err != nil {
			t.Fatalf("decode: %v", err)
		}
		c24Prop(t, c)
	}
}
