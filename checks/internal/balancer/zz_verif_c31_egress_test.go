//go:build verif

package balancer

import (
	"bufio"
	"encoding/binary"
	"encoding/json"
	"fmt"
	"io"
	"log"
	"net"
	"os"
	"sync"
	"sync/atomic"
	"testing"
	"time"

	"github.com/VKCOM/statshouse/internal/data_model/gen2/tlstatshouse"
	"github.com/VKCOM/statshouse/internal/receiver"
	"pgregory.net/rapid"
)

// ---------- C31 level 2: Egress with two local TCP upstreams ----------
//
// A real Egress (NewEgress, default timeouts) is pointed at two listeners on 127.0.0.1. The harness is
// the only caller of WritePacketLocked (the handler serialises its callers the same way) and feeds
// frames built like handler.HandleMetricsBatchRaw does (4-byte little-endian length + body). Upstreams
// record the handshake and parse the stream into frames; per plan they stop reading for a while
// ("stall"), which fills the kernel buffers and then the balancer's own buffers.
//
// Oracle, from the statement:
//   - the byte stream of every connection is: handshake, then whole frames; every frame is either one
//     accepted packet, byte for byte, or a __src_client_write_err batch; accepted packets appear in
//     acceptance order on each connection, each exactly once over all connections;
//   - every call is counted as forwarded or dropped (Stats), a dropped packet never arrives, an
//     accepted one always does;
//   - a packet is dropped only when both send buffers were full just before the call (fill level read
//     in-package; the harness is the only producer, so "not full before" implies "accepted");
//   - drops are reported upstream: the values of the received __src_client_write_err batches add up to
//     the dropped bytes (frame or body bytes are both accepted as "bytes");
//   - bounded liveness: after the last call, with both upstreams reading, everything accepted and the
//     drop report arrive although nothing else is sent. "Stuck" = no frame received for 8 s while
//     something is missing. Connection failures are not part of these plans (a TCP write that fails
//     loses data in flight by nature; the statement's "reconnection time" clause is not exercised).
//   - upstream address dies (3-5 listeners): what was accepted before the sender noticed the failure (a
//     counted write error) may be lost with the connection, because a TCP write that "succeeded" into a
//     dead connection is gone and the code resends only what it had not written; everything accepted
//     after that, and at least 2 s after the failure, must reach a living upstream exactly once, framed,
//     byte-exact and in order; 8 s without any frame while such packets are outstanding = stuck.
//   - sustained overload: while both upstreams read slowly the producer keeps offering packets back to
//     back, so that drops, the sender's report writes and further drops overlap for several cycles; the
//     same equalities are checked once everything has drained (a drop that falls between reading and
//     clearing the counter in the sender would be counted in Stats but never reported).

type c31EStep struct {
	Stall   string `json:"stall,omitempty"` // before the gap: "" keep, "none", "prim", "sec", "both" (which upstream stops reading), "slow" (both read at RateKBs)
	GapMs   int    `json:"gap_ms"`
	Burst   int    `json:"burst"`
	Size    int    `json:"size"`               // body bytes, 1..65535
	RateKBs int    `json:"rate_kbs,omitempty"` // "slow": read rate of each upstream, KiB/s
	PushMs  int    `json:"push_ms,omitempty"`  // after the burst keep offering packets back to back for this long (sustained overload)
	ToDrop  bool   `json:"to_drop,omitempty"`  // the burst ends early, at the first dropped packet
	Kill    string `json:"kill,omitempty"`     // before the gap: "prim0" closes the listener (and its connections) of the first address of the primary sender's pool, "prim01" of the first two
	Await   bool   `json:"await,omitempty"`    // before the burst: keep the sender busy until it has noticed the failure (a write error is counted) and 2 s have passed since the kill
}

type c31EPlan struct {
	Upstreams int        `json:"upstreams,omitempty"` // number of local listeners given as the address list (default 2)
	Steps     []c31EStep `json:"steps"`
	// steady trickle (after the steps): one packet of TrickleSize every TrickleGapMs, TrickleCount times;
	// each must arrive upstream within c31TrickleBoundEgress of its own acceptance
	TrickleGapMs int `json:"trickle_gap_ms,omitempty"`
	TrickleCount int `json:"trickle_count,omitempty"`
	TrickleSize  int `json:"trickle_size,omitempty"`
}

const c31TrickleBoundEgress = 5 * time.Second // batch timeout 1 s + slack

type c31EAcc struct {
	size int
	at   time.Time
}

type c31ECase struct {
	Plans []c31EPlan `json:"plans"`
}

const c31EMagic = "c31e"

// body of harness packet #seq with the given size: magic, seq, then a pattern determined by seq
func c31EBody(dst []byte, seq uint64, size int) []byte {
	dst = dst[:0]
	var hdr [12]byte
	copy(hdr[:4], c31EMagic)
	binary.BigEndian.PutUint64(hdr[4:], seq)
	for i := 0; i < size; i++ {
		if i < len(hdr) {
			dst = append(dst, hdr[i])
		} else {
			dst = append(dst, byte(uint64(i)*2654435761>>7)^byte(seq*31))
		}
	}
	return dst
}

type c31EFrame struct {
	seq     int64 // -1: write_err batch
	at      time.Time
	val     float64
	errText string
}

type c31Upstream struct {
	ln      net.Listener
	stalled atomic.Bool
	rateKBs atomic.Int64 // > 0: read at most this many KiB/s per connection
	killed  atomic.Bool  // the plan closed this listener and its connections
	mu      sync.Mutex
	conns   []*c31UpConn
	wg      sync.WaitGroup
}

type c31UpConn struct {
	up       *c31Upstream
	conn     net.Conn
	key      []byte
	keyDone  bool
	frames   []c31EFrame
	bad      string // first stream-level problem
	progress *atomic.Int64
	sizeOf   func(seq uint64) (int, bool)
}

func (u *c31Upstream) serve(progress *atomic.Int64, sizeOf func(uint64) (int, bool)) {
	defer u.wg.Done()
	for {
		c, err := u.ln.Accept()
		if err != nil {
			return
		}
		if tc, ok := c.(*net.TCPConn); ok {
			_ = tc.SetReadBuffer(64 << 10) // keeps the kernel from hiding tens of MB while stalled
		}
		uc := &c31UpConn{up: u, conn: c, progress: progress, sizeOf: sizeOf}
		u.mu.Lock()
		u.conns = append(u.conns, uc)
		u.mu.Unlock()
		u.wg.Add(1)
		go uc.read(c)
	}
}

type c31StallReader struct {
	c  net.Conn
	up *c31Upstream
}

func (r c31StallReader) Read(p []byte) (int, error) {
	for r.up.stalled.Load() {
		time.Sleep(2 * time.Millisecond)
	}
	rate := r.up.rateKBs.Load()
	if rate <= 0 {
		return r.c.Read(p)
	}
	if len(p) > 32<<10 {
		p = p[:32<<10]
	}
	n, err := r.c.Read(p)
	time.Sleep(time.Duration(int64(n) * int64(time.Second) / (rate << 10)))
	return n, err
}

func (uc *c31UpConn) read(c net.Conn) {
	defer uc.up.wg.Done()
	defer c.Close()
	setBad := func(format string, a ...any) {
		if uc.up.killed.Load() {
			return // the harness cut this stream itself
		}
		uc.up.mu.Lock()
		if uc.bad == "" {
			uc.bad = fmt.Sprintf(format, a...)
		}
		uc.up.mu.Unlock()
	}
	br := bufio.NewReaderSize(c31StallReader{c, uc.up}, 256<<10)
	// handshake: prefix, magic, host length, host
	head := make([]byte, len(receiver.TCPPrefix)+1+4)
	if _, err := io.ReadFull(br, head); err != nil {
		return
	}
	hl := binary.LittleEndian.Uint32(head[len(head)-4:])
	if hl > 1<<16 {
		setBad("handshake host length %d", hl)
		return
	}
	host := make([]byte, hl)
	if _, err := io.ReadFull(br, host); err != nil {
		return
	}
	uc.up.mu.Lock()
	uc.key = append(append([]byte(nil), head...), host...)
	uc.keyDone = true
	uc.up.mu.Unlock()
	uc.progress.Store(time.Now().UnixNano())
	var lenb [4]byte
	body := make([]byte, 0, 1<<16)
	want := make([]byte, 0, 1<<16)
	for {
		if _, err := io.ReadFull(br, lenb[:]); err != nil {
			if err != io.EOF && err != io.ErrUnexpectedEOF {
				_ = err // connection closed by the balancer at shutdown
			}
			return
		}
		n := binary.LittleEndian.Uint32(lenb[:])
		if n == 0 || n > pktBodyMax {
			setBad("frame length %d out of range: the stream lost its framing", n)
			return
		}
		body = body[:n]
		if _, err := io.ReadFull(br, body); err != nil {
			setBad("stream ends inside a frame of %d bytes: %v", n, err)
			return
		}
		f := c31EFrame{at: time.Now()}
		if n >= 12 && string(body[:4]) == c31EMagic {
			seq := binary.BigEndian.Uint64(body[4:12])
			f.seq = int64(seq)
			size, ok := uc.sizeOf(seq)
			if !ok {
				f.errText = fmt.Sprintf("packet #%d arrived upstream although it was not accepted (counted as dropped, or never offered)", seq)
			} else if want = c31EBody(want, seq, size); string(want) != string(body) {
				f.errText = fmt.Sprintf("packet #%d arrived with %d bytes, differs from the %d bytes accepted", seq, len(body), size)
			}
		} else {
			f.seq = -1
			var b tlstatshouse.AddMetricsBatch
			rest, err := b.ReadTL1Boxed(body)
			switch {
			case err != nil:
				f.errText = fmt.Sprintf("frame of %d bytes is neither an accepted packet nor a TL addMetricsBatch: %v", n, err)
			case len(rest) != 0 || len(b.Metrics) != 1 || b.Metrics[0].Name != "__src_client_write_err" || len(b.Metrics[0].Value) != 1:
				f.errText = fmt.Sprintf("unexpected batch injected by the balancer: %d metrics, %d trailing bytes", len(b.Metrics), len(rest))
			default:
				f.val = b.Metrics[0].Value[0]
			}
		}
		uc.up.mu.Lock()
		uc.frames = append(uc.frames, f)
		uc.up.mu.Unlock()
		uc.progress.Store(time.Now().UnixNano())
	}
}

type c31EResult struct {
	violation    string
	inconclusive string
	classes      map[string]bool
	nontrivial   bool
}

type c31EOffer struct {
	seq   uint64
	size  int
	valid bool
}

func c31RunEgress(p c31EPlan) (res c31EResult) {
	res.classes = map[string]bool{}
	sched := c31SchedStart()
	tStart := time.Now()
	var progress atomic.Int64
	progress.Store(time.Now().UnixNano())
	// ledger: only accepted packets are remembered (a sustained overload offers millions)
	var offMu sync.Mutex
	accepted := map[uint64]c31EAcc{} // seq -> body size, time of acceptance
	var pending c31EOffer            // the offer in flight: may already arrive upstream before it is booked
	var nOffers uint64
	sizeOf := func(seq uint64) (int, bool) {
		offMu.Lock()
		defer offMu.Unlock()
		if a, ok := accepted[seq]; ok {
			return a.size, true
		}
		if pending.valid && pending.seq == seq {
			return pending.size, true
		}
		return 0, false
	}
	ups := make([]*c31Upstream, min(max(p.Upstreams, 2), 5))
	addrList := ""
	for i := range ups {
		ln, err := net.Listen("tcp", "127.0.0.1:0")
		if err != nil {
			res.inconclusive = "listen: " + err.Error()
			return
		}
		ups[i] = &c31Upstream{ln: ln}
		if i > 0 {
			addrList += ","
		}
		addrList += ln.Addr().String()
		ups[i].wg.Add(1)
		go ups[i].serve(&progress, sizeOf)
	}
	const hostTag = "c31-host"
	e := NewEgress(EgressConfig{Address: addrList, HostTag: hostTag})
	defer func() {
		for _, u := range ups {
			u.stalled.Store(false)
		}
		closed := make(chan struct{})
		go func() { _ = e.Close(); close(closed) }()
		select {
		case <-closed:
		case <-time.After(30 * time.Second):
			if res.violation == "" && res.inconclusive == "" {
				res.inconclusive = "Egress.Close did not return within 30 s"
			}
		}
		for _, u := range ups {
			_ = u.ln.Close()
		}
		if res.inconclusive == "" {
			for _, u := range ups {
				u.wg.Wait()
			}
		}
	}()
	// both senders connected?
	connected := func() bool {
		n := 0
		for _, u := range ups {
			u.mu.Lock()
			for _, c := range u.conns {
				if c.keyDone {
					n++
					break
				}
			}
			u.mu.Unlock()
		}
		return n >= 2
	}
	for t0 := time.Now(); !connected(); time.Sleep(10 * time.Millisecond) {
		if time.Since(t0) > 10*time.Second {
			res.inconclusive = "the two senders did not connect to the local upstreams within 10 s"
			return
		}
	}
	// which listener serves the primary sender (scheduling aid for the "prim"/"sec" stalls)
	poolAddrs := func(s *tcpSender) []string {
		s.poolMu.Lock()
		defer s.poolMu.Unlock()
		return append([]string(nil), s.pool.addrs...)
	}
	upOf := func(addr string) int {
		for i, u := range ups {
			if u.ln.Addr().String() == addr {
				return i
			}
		}
		return -1
	}
	primAddrs, secAddrs := poolAddrs(e.pool.primary), poolAddrs(e.pool.secondary)
	if len(primAddrs) == 0 || len(secAddrs) == 0 || upOf(primAddrs[0]) < 0 || upOf(secAddrs[0]) < 0 {
		res.inconclusive = fmt.Sprintf("unexpected address pools %q %q", primAddrs, secAddrs)
		return
	}
	primIdx, secIdx := upOf(primAddrs[0]), upOf(secAddrs[0])
	_ = e.Stats()
	fill := func(s *tcpSender) int {
		s.buf.mu.Lock()
		defer s.buf.mu.Unlock()
		return s.buf.wi
	}

	pkt := make([]byte, 0, pktFrameMax)
	var body []byte
	var droppedFrame, droppedBody float64
	nDropped, nAccepted := 0, 0
	sustained := false
	// "upstream address dies" plans: packets accepted before the sender has noticed the failure (and
	// before 2 s have passed) may be lost with the connection; everything accepted later must arrive
	var killedAt time.Time
	var writeErrors0 uint64       // write errors counted before the kill
	detected := false             // a write error has been counted after the kill: the failed batch is settled, nothing more goes to the dead connection
	optional := map[uint64]bool{} // accepted packets that are allowed to get lost (or, on different connections, to arrive twice)
	nRequiredAfterKill := 0
	lastCall := time.Now()
	offerAt := func(si, size int) bool {
		offMu.Lock()
		seq := nOffers
		nOffers++
		pending = c31EOffer{seq: seq, size: size, valid: true}
		offMu.Unlock()
		body = c31EBody(body, seq, size)
		pkt = append(pkt[:pktHeadLen], body...)
		binary.LittleEndian.PutUint32(pkt[:pktHeadLen], uint32(len(body)))
		frameLen := len(pkt)
		if !killedAt.IsZero() && !detected && e.stats.writeErrors.Load() > writeErrors0 {
			detected = true
		}
		mustArrive := detected && time.Since(killedAt) >= 2*time.Second // decided before the call
		fillP, fillS := fill(e.pool.primary), fill(e.pool.secondary)
		pkt = e.WritePacketLocked(pkt)
		if cap(pkt) < pktFrameMax {
			pkt = make([]byte, 0, pktFrameMax)
		}
		lastCall = time.Now()
		s := e.Stats()
		switch {
		case s.ForwardedPackets == 1 && s.DroppedPackets == 0:
			offMu.Lock()
			accepted[seq] = c31EAcc{size, lastCall}
			if !killedAt.IsZero() {
				if mustArrive {
					nRequiredAfterKill++
				} else {
					optional[seq] = true
				}
			}
			offMu.Unlock()
			nAccepted++
		case s.ForwardedPackets == 0 && s.DroppedPackets == 1:
			nDropped++
			droppedFrame += float64(frameLen)
			droppedBody += float64(frameLen - pktHeadLen)
			if fillP < bufferLen || fillS < bufferLen {
				res.violation = fmt.Sprintf("step %d: packet #%d dropped although the send buffers held %d and %d of %d packets just before the call", si, seq, fillP, fillS, bufferLen)
				return false
			}
		default:
			res.violation = fmt.Sprintf("step %d: one WritePacketLocked call changed Stats by forwarded=%d dropped=%d (want exactly one of them = 1)", si, s.ForwardedPackets, s.DroppedPackets)
			return false
		}
		return true
	}
	for si, st := range p.Steps {
		switch st.Stall {
		case "none":
			for _, u := range ups {
				u.stalled.Store(false)
				u.rateKBs.Store(0)
			}
		case "slow":
			for _, u := range ups {
				u.stalled.Store(false)
				u.rateKBs.Store(int64(max(st.RateKBs, 64)))
			}
		case "prim":
			ups[primIdx].stalled.Store(true)
			res.classes["stall-one-upstream"] = true
		case "sec":
			ups[secIdx].stalled.Store(true)
			res.classes["stall-one-upstream"] = true
		case "both":
			for _, u := range ups {
				u.stalled.Store(true)
			}
			res.classes["stall-both-upstreams"] = true
		}
		if st.Kill != "" && killedAt.IsZero() {
			// the address the primary sender is really connected to (normally the first of its pool; it
			// may have moved on if that first dial failed) goes first
			order := append([]string(nil), primAddrs...)
			for i, a := range order {
				u := ups[upOf(a)]
				u.mu.Lock()
				inUse := len(u.conns) > 0
				u.mu.Unlock()
				if inUse {
					order[0], order[i] = order[i], order[0]
					if i != 0 {
						res.classes["sender-was-not-on-its-first-address"] = true
					}
					break
				}
			}
			victims := order[:1]
			if st.Kill == "prim01" && len(order) >= 3 {
				victims = order[:2]
				res.classes["two-addresses-died"] = true
			}
			if len(primAddrs) < 2 {
				res.inconclusive = "kill step needs at least two addresses in the primary pool"
				return
			}
			offMu.Lock()
			for seq := range accepted { // whatever is still on its way may be lost with the connection
				optional[seq] = true
			}
			offMu.Unlock()
			for _, a := range victims {
				u := ups[upOf(a)]
				u.killed.Store(true)
				_ = u.ln.Close()
				u.mu.Lock()
				for _, c := range u.conns {
					_ = c.conn.Close()
				}
				u.mu.Unlock()
			}
			writeErrors0 = e.stats.writeErrors.Load()
			killedAt = time.Now()
			res.classes["address-died"] = true
		}
		if st.GapMs > 0 {
			time.Sleep(time.Duration(st.GapMs) * time.Millisecond)
		}
		size := st.Size
		if size < 12 {
			size = 12
		}
		if size > pktBodyMax {
			size = pktBodyMax
		}
		offer := func() bool { return offerAt(si, size) }
		if st.Await && !killedAt.IsZero() {
			// keep the sender writing (a batch of 40 is handed over at once) until it has hit the dead
			// connection; bounded, and never more than the dead sender's buffer could hide
			for n := 0; !(detected && time.Since(killedAt) >= 2*time.Second); n++ {
				if time.Since(killedAt) > 20*time.Second {
					res.inconclusive = "the sender did not count a write error within 20 s after its upstream was closed"
					return
				}
				if !detected && (n%30 == 0 && n < 90 || n%100 == 0) {
					for k := 0; k < 40; k++ {
						if !offer() {
							return
						}
					}
				}
				time.Sleep(10 * time.Millisecond)
				if !detected && e.stats.writeErrors.Load() > writeErrors0 {
					detected = true
				}
			}
		}
		for k, d0 := 0, nDropped; k < st.Burst && !(st.ToDrop && nDropped > d0); k++ {
			if !offer() {
				return
			}
		}
		if st.PushMs > 0 { // sustained overload: the producer does not pause while the senders drain and report
			res.classes["sustained-push"] = true
			sustained = true
			for end := time.Now().Add(time.Duration(st.PushMs) * time.Millisecond); time.Now().Before(end); {
				if !offer() {
					return
				}
			}
		}
	}
	for _, u := range ups {
		u.rateKBs.Store(0)
		u.stalled.Store(false)
	}
	if os.Getenv("VERIF_C31_DEBUG") != "" {
		fmt.Fprintf(os.Stderr, "  calls done %v after start, dropped %d accepted %d\n", time.Since(tStart).Round(time.Millisecond), nDropped, nAccepted)
		defer func() {
			fmt.Fprintf(os.Stderr, "  drained %v after start\n", time.Since(tStart).Round(time.Millisecond))
		}()
	}
	if !killedAt.IsZero() {
		res.nontrivial = true
	}
	if nDropped > 0 {
		res.classes["packets-dropped"] = true
		res.nontrivial = true
	}
	if n := len(p.Steps); n > 0 && p.Steps[n-1].Burst > 0 && p.Steps[n-1].Burst < bufferLen*20/100 {
		res.classes["idle-tail-after-small-burst"] = true
		res.nontrivial = true
	}
	// wait for everything accepted (and the drop report); stuck = no frame for c31StuckAfter
	seen := map[int64]bool{}
	type connPos struct {
		done int
		last int64
	}
	pos := map[*c31UpConn]*connPos{}
	var reported float64
	nReports := 0
	seenRequired := 0
	trickle := p.TrickleCount > 0 && p.TrickleGapMs > 0
	arrivedAt := map[uint64]time.Time{} // trickle plans only
	check := func(final bool) (done bool, problem string) {
		wantKey := receiver.TCPPrefix + string(receiver.TCPMagicV2Balancer) + string(binary.LittleEndian.AppendUint32(nil, uint32(len(hostTag)))) + hostTag
		for ui, u := range ups {
			u.mu.Lock()
			for ci, c := range u.conns {
				if c.bad != "" && problem == "" {
					problem = fmt.Sprintf("upstream %d connection %d: %s", ui, ci, c.bad)
				}
				if c.keyDone && string(c.key) != wantKey && problem == "" {
					problem = fmt.Sprintf("upstream %d connection %d: handshake %q, want %q", ui, ci, c.key, wantKey)
				}
				cp := pos[c]
				if cp == nil {
					cp = &connPos{last: -1}
					pos[c] = cp
				}
				for _, f := range c.frames[cp.done:] { // frames are looked at once
					if f.errText != "" && problem == "" {
						problem = fmt.Sprintf("upstream %d connection %d: %s", ui, ci, f.errText)
					}
					if f.seq < 0 {
						reported += f.val
						nReports++
						continue
					}
					if f.seq <= cp.last && problem == "" {
						problem = fmt.Sprintf("upstream %d connection %d: packet #%d arrives after #%d (acceptance order broken)", ui, ci, f.seq, cp.last)
					}
					cp.last = f.seq
					if seen[f.seq] {
						if optional[uint64(f.seq)] {
							res.classes["duplicate-of-packet-in-flight-at-failure"] = true
						} else if problem == "" {
							problem = fmt.Sprintf("packet #%d arrived more than once", f.seq)
						}
						continue
					}
					seen[f.seq] = true
					if trickle {
						arrivedAt[uint64(f.seq)] = f.at
					}
					if !optional[uint64(f.seq)] {
						seenRequired++
					}
				}
				cp.done = len(c.frames)
			}
			if len(u.conns) > 1 {
				res.classes["reconnected"] = true
			}
			u.mu.Unlock()
		}
		if problem != "" {
			return true, problem
		}
		// every frame that carried a packet was verified against the ledger by the reader (an unbooked
		// packet is an errText above), so the accepted packets still missing are a matter of counting
		missing := nAccepted - len(optional) - seenRequired
		if killedAt.IsZero() && reported != 0 && reported != droppedFrame && reported != droppedBody && (reported > droppedFrame || final) {
			return true, fmt.Sprintf("drop reports add up to %v bytes in %d reports, dropped were %d packets = %v frame bytes (%v body bytes)", reported, nReports, nDropped, droppedFrame, droppedBody)
		}
		reportOK := nDropped == 0 && reported == 0 || nDropped > 0 && (reported == droppedFrame || reported == droppedBody)
		if !killedAt.IsZero() {
			reportOK = true // a report may have gone down with the connection
		}
		if missing == 0 && reportOK {
			if !killedAt.IsZero() && nRequiredAfterKill > 0 {
				res.classes["address-died-later-packets-arrived"] = true
			}
			if sustained && nDropped > 0 && nReports >= 3 {
				res.classes["sustained-overload-several-reports"] = true
			}
			return true, ""
		}
		if final {
			what := ""
			if missing > 0 {
				firstMissing := int64(-1)
				offMu.Lock()
				for seq := range accepted {
					if !seen[int64(seq)] && !optional[seq] && (firstMissing < 0 || int64(seq) < firstMissing) {
						firstMissing = int64(seq)
					}
				}
				offMu.Unlock()
				what = fmt.Sprintf("%d of %d accepted packets never arrived (first missing #%d)", missing, nAccepted, firstMissing)
			}
			if !reportOK {
				if what != "" {
					what += "; "
				}
				what += fmt.Sprintf("%d drops (%v bytes) but the upstreams received %d reports for %v bytes", nDropped, droppedFrame, nReports, reported)
			}
			return true, "stuck: " + what
		}
		return false, ""
	}
	// steady trickle: every packet has its own deadline
	var trickleSeqs []uint64
	firstOpen := 0
	tooLate := func() bool {
		now := time.Now()
		for ; firstOpen < len(trickleSeqs); firstOpen++ {
			seq := trickleSeqs[firstOpen]
			offMu.Lock()
			acc := accepted[seq]
			offMu.Unlock()
			var d time.Duration
			if at, ok := arrivedAt[seq]; !ok {
				if d = now.Sub(acc.at); d <= c31TrickleBoundEgress {
					return false
				}
			} else if d = at.Sub(acc.at); d <= c31TrickleBoundEgress {
				continue
			}
			starved, info := sched.starved(acc.at, acc.at.Add(d))
			msg := fmt.Sprintf("steady trickle (one packet every %d ms): packet #%d did not arrive upstream within %v of its acceptance (waited %v so far; %d accepted, %d arrived); both upstreams alive and reading; %s",
				p.TrickleGapMs, seq, c31TrickleBoundEgress, d.Round(time.Millisecond), nAccepted, len(seen), info)
			if starved {
				res.inconclusive = "machine starved: " + msg
			} else {
				res.violation = msg
			}
			return true
		}
		return false
	}
	if trickle {
		res.classes["steady-trickle"] = true
		res.nontrivial = true
		size := min(max(p.TrickleSize, 12), pktBodyMax)
		for k := 0; k < p.TrickleCount; k++ {
			time.Sleep(time.Duration(p.TrickleGapMs) * time.Millisecond)
			n0 := nAccepted
			if !offerAt(len(p.Steps), size) {
				return
			}
			if nAccepted > n0 {
				trickleSeqs = append(trickleSeqs, nOffers-1)
			}
			if _, problem := check(false); problem != "" {
				res.violation = problem
				return
			}
			if tooLate() {
				return
			}
		}
	}
	drainStart := time.Now()
	for {
		done, problem := check(false)
		if problem != "" {
			res.violation = problem
			return
		}
		if trickle && tooLate() {
			return
		}
		if done {
			break
		}
		if time.Since(drainStart) > 3*time.Minute {
			res.inconclusive = "frames keep arriving but the drain did not finish within 3 minutes"
			return
		}
		lastProgress := time.Unix(0, progress.Load())
		if lastProgress.Before(lastCall) {
			lastProgress = lastCall
		}
		if idle := time.Since(lastProgress); idle > c31StuckAfter {
			_, problem = check(true)
			if !killedAt.IsZero() {
				healthy := 0
				for _, u := range ups {
					if !u.killed.Load() {
						healthy++
					}
				}
				es := e.Stats()
				res.violation = fmt.Sprintf("%s; no frame received for %v although %d of %d upstream addresses are alive and reading (pools %q / %q, write errors %d, reconnect errors %d)", problem, idle.Round(time.Millisecond), healthy, len(ups), primAddrs, secAddrs, es.WriteErrors, es.ReconnectErrors)
				return
			}
			if es := e.Stats(); es.WriteErrors > 0 || es.ReconnectErrors > 0 || res.classes["reconnected"] {
				res.inconclusive = fmt.Sprintf("a connection failed although the plan has no failure (write errors %d, reconnect errors %d): %s", es.WriteErrors, es.ReconnectErrors, problem)
				return
			}
			res.violation = fmt.Sprintf("%s; no frame received for %v, both upstreams reading, nothing else is sent", problem, idle.Round(time.Millisecond))
			return
		}
		time.Sleep(10 * time.Millisecond)
	}
	// nothing more may arrive: give late duplicates a moment, then a final look
	time.Sleep(50 * time.Millisecond)
	if _, problem := check(true); problem != "" {
		res.violation = problem
	}
	return
}

func c31EgressProp(t vpT, c *c31ECase) (results []c31EResult) {
	log.SetOutput(io.Discard) // the balancer logs every connect
	results = make([]c31EResult, len(c.Plans))
	var wg sync.WaitGroup
	for i := range c.Plans {
		wg.Add(1)
		go func() {
			defer wg.Done()
			t0 := time.Now()
			results[i] = c31RunEgress(c.Plans[i])
			if os.Getenv("VERIF_C31_DEBUG") != "" {
				b, _ := json.Marshal(c.Plans[i])
				fmt.Fprintf(os.Stderr, "egress plan %d took %v: %s\n    -> violation=%q inconclusive=%q\n", i, time.Since(t0).Round(time.Millisecond), b, results[i].violation, results[i].inconclusive)
			}
		}()
	}
	wg.Wait()
	for i, r := range results {
		if r.violation != "" {
			plan := c.Plans[i]
			c.Plans = []c31EPlan{plan}
			t.Fatalf("plan %d: %s", i, r.violation)
		}
	}
	for _, r := range results {
		if r.inconclusive != "" {
			t.Fatalf("VP-INCONCLUSIVE C31 egress: %s", r.inconclusive)
		}
	}
	return results
}

// sustained overload: both upstreams read slowly while the producer offers maximum-size packets back to
// back; drops, report writes and further drops overlap for several cycles; then everything drains.
func c31GenSustained() *rapid.Generator[c31EPlan] {
	return rapid.Custom(func(t *rapid.T) c31EPlan {
		size := rapid.IntRange(60, 400).Draw(t, "size") // small packets: offering is fast, little memory is touched, many batches
		return c31EPlan{Steps: []c31EStep{
			{GapMs: rapid.IntRange(0, 100).Draw(t, "gap"), Burst: rapid.IntRange(1, 40).Draw(t, "warm"), Size: size},
			{Stall: "both", Burst: 60000, ToDrop: true, Size: size}, // fill the balancer's and the kernel's buffers
			{Stall: "slow", RateKBs: rapid.SampledFrom([]int{512, 1 << 10, 2 << 10, 4 << 10}).Draw(t, "rate"),
				PushMs: rapid.IntRange(1200, 2000).Draw(t, "pushms"), Size: size},
			{Stall: "none", GapMs: rapid.IntRange(0, 300).Draw(t, "gap2"), Burst: rapid.IntRange(0, 3).Draw(t, "tail"), Size: rapid.IntRange(12, 200).Draw(t, "tailsize")},
		}}
	})
}

// upstream address dies: 3-5 listeners, so that the primary sender's pool has 2-3 addresses; after some
// traffic the address that sender dialled first (and, with 5 listeners, possibly the next one too) is
// closed together with its connections while the producer goes on; the sender must move on to a living
// address of its pool.
func c31GenDies() *rapid.Generator[c31EPlan] {
	return rapid.Custom(func(t *rapid.T) c31EPlan {
		p := c31EPlan{Upstreams: rapid.SampledFrom([]int{5, 5, 3, 4}).Draw(t, "upstreams")}
		size := func() int { return rapid.IntRange(12, 3000).Draw(t, "size") }
		p.Steps = append(p.Steps, c31EStep{GapMs: rapid.IntRange(0, 300).Draw(t, "gap"), Burst: rapid.IntRange(1, 80).Draw(t, "warm"), Size: size()})
		kill := "prim0"
		if p.Upstreams == 5 && rapid.IntRange(0, 3).Draw(t, "single") < 3 { // mostly both of the first two addresses
			kill = "prim01"
		}
		p.Steps = append(p.Steps, c31EStep{Kill: kill, GapMs: rapid.IntRange(0, 400).Draw(t, "gapAfterKill"), Burst: rapid.IntRange(0, 45).Draw(t, "burstAfterKill"), Size: size()})
		p.Steps = append(p.Steps, c31EStep{Await: true, Burst: rapid.IntRange(1, 60).Draw(t, "later"), Size: size()})
		for i, n := 0, rapid.IntRange(0, 2).Draw(t, "more"); i < n; i++ {
			p.Steps = append(p.Steps, c31EStep{GapMs: rapid.IntRange(0, 1200).Draw(t, "gapLater"), Burst: rapid.IntRange(1, 120).Draw(t, "burstLater"), Size: size()})
		}
		return p
	})
}

func c31GenEPlan(allowFlood bool) *rapid.Generator[c31EPlan] {
	sizes := func(t *rapid.T) int {
		switch rapid.IntRange(0, 5).Draw(t, "sizekind") {
		case 0:
			return rapid.IntRange(12, 64).Draw(t, "size")
		case 1, 2:
			return rapid.IntRange(65, 1400).Draw(t, "size")
		case 3:
			return rapid.IntRange(1401, 20000).Draw(t, "size")
		case 4:
			return rapid.IntRange(60000, pktBodyMax-1).Draw(t, "size")
		default:
			return pktBodyMax
		}
	}
	return rapid.Custom(func(t *rapid.T) c31EPlan {
		var p c31EPlan
		kind := rapid.IntRange(0, 9).Draw(t, "plankind") // rapid favours small values early: the expensive kind is the largest
		if kind >= 8 && !allowFlood {
			kind -= 4
		}
		switch {
		case kind >= 8: // both upstreams stop reading while far more than all buffers can hold is offered
			p.Steps = append(p.Steps,
				c31EStep{GapMs: rapid.IntRange(0, 200).Draw(t, "gap"), Burst: rapid.IntRange(1, 50).Draw(t, "warm"), Size: sizes(t)},
				c31EStep{Stall: "both", GapMs: rapid.IntRange(0, 50).Draw(t, "gap"), Burst: rapid.IntRange(700, 1000).Draw(t, "flood"), Size: rapid.IntRange(64000, pktBodyMax).Draw(t, "size")},
				c31EStep{Stall: "none", GapMs: rapid.IntRange(0, 1500).Draw(t, "gap"), Burst: rapid.IntRange(0, 3).Draw(t, "tail"), Size: sizes(t)})
		default:
			n := rapid.IntRange(1, 5).Draw(t, "nsteps")
			long := 0
			for i := 0; i < n; i++ {
				st := c31EStep{Size: sizes(t)}
				switch g := rapid.IntRange(0, 9).Draw(t, "gapkind"); {
				case g < 4:
					st.GapMs = rapid.IntRange(0, 30).Draw(t, "gap")
				case g < 8:
					st.GapMs = rapid.IntRange(100, 500).Draw(t, "gap")
				default:
					if long < 1 {
						long++
						st.GapMs = rapid.IntRange(1050, 1400).Draw(t, "gap")
					}
				}
				switch b := rapid.IntRange(0, 9).Draw(t, "burstkind"); {
				case b < 4:
					st.Burst = 1
				case b < 7:
					st.Burst = rapid.IntRange(2, bufferLen*20/100-1).Draw(t, "burst")
				default:
					st.Burst = rapid.IntRange(bufferLen*20/100, 3*bufferLen).Draw(t, "burst")
				}
				if kind >= 4 { // one upstream stops reading for a while: the other sender takes over
					st.Stall = rapid.SampledFrom([]string{"", "", "prim", "sec", "none", "prim"}).Draw(t, "stall")
				}
				p.Steps = append(p.Steps, st)
			}
		}
		return p
	})
}

const c31EPlansPerCase = 6

func TestVerifC31Egress(t *testing.T) {
	t.Parallel()
	ev := vpNewEv(t, "C31", "egress")
	rapid.Check(t, func(rt *rapid.T) {
		c := &c31ECase{}
		// every batch: two sustained-overload plans (small packets: cheap in memory, one busy producer
		// each) and at most one flood plan (first-touches ~100 MB)
		c.Plans = append(c.Plans, c31GenSustained().Draw(rt, "sustained"), c31GenSustained().Draw(rt, "sustained"),
			c31GenDies().Draw(rt, "dies")) // and one plan in which an upstream address dies
		floods := 0
		for i := 3; i < c31EPlansPerCase; i++ {
			p := c31GenEPlan(floods < 1).Draw(rt, "plan")
			for _, st := range p.Steps {
				if st.Stall == "both" {
					floods++
				}
			}
			c.Plans = append(c.Plans, p)
		}
		all := append([]c31EPlan(nil), c.Plans...)
		vpRunCase(rt, "C31", "egress", c, func() {
			results := c31EgressProp(rt, c)
			for i, r := range results {
				var cls []string
				for k := range r.classes {
					cls = append(cls, k)
				}
				ev.Case(r.nontrivial, all[i], cls...)
			}
		})
	})
}

func init() {
	vpReplayers["C31/egress"] = func(t vpT, raw json.RawMessage) {
		var c c31ECase
		if err := json.Unmarshal(raw, &c); err != nil {
			t.Fatalf("decode: %v", err)
		}
		c31EgressProp(t, &c)
	}
}
