//go:build verif

package balancer

import (
	"encoding/binary"
	"encoding/json"
	"errors"
	"fmt"
	"os"
	"sort"
	"sync"
	"testing"
	"time"

	"pgregory.net/rapid"
)

// ---------- C31 level 1: pktBuffer (batching buffer between acceptance and the sender) ----------
//
// Real time, real push/pop/swap. One rapid case is a batch of independent plans that run concurrently
// (each with its own pktBuffer, one producer = the harness, one consumer = a copy of sendLoop's use of
// pop), so that enough arrival patterns fit into the quick budget.
//
// Oracle, from the statement:
//   - every accepted packet is handed to the sender, byte for byte, in acceptance order; after a failed
//     write that reports n packets as not written, exactly those n are handed over again, nothing else;
//   - a push is refused only when the buffer holds bufferLen packets;
//   - bounded liveness: an accepted packet is handed to the sender even if nothing else ever arrives.
//     The statement's bound is "about one second"; the check only asserts "not stuck": handed over
//     within c31StuckAfter (8 s, plus the consumer delays the plan itself scripted). A slow machine
//     can therefore not turn into a violation, a lost wake-up can.
//
// The pktBuffer is built as a literal with empty slots instead of newPktBuffer() (which preallocates
// 26 MB per buffer); push/pop/swap/close are the real ones and never look inside the slots.

const c31StuckAfter = 8 * time.Second

type c31Step struct {
	GapMs int `json:"gap_ms"` // idle time before the burst
	Burst int `json:"burst"`  // packets pushed back to back
}

type c31Pop struct {
	DelayMs  int  `json:"delay_ms,omitempty"` // how long the "write" takes
	Fail     bool `json:"fail,omitempty"`     // the write fails ...
	Consumed int  `json:"consumed,omitempty"` // ... after this many packets (mod len+1) were written; sendLoop then reports remaining-1
}

type c31Plan struct {
	Steps []c31Step `json:"steps"`
	Pops  []c31Pop  `json:"pops,omitempty"` // consumer script, cyclic; empty = instant successful writes
	// steady trickle (after the steps): one packet every TrickleGapMs, TrickleCount times. For such a plan
	// every packet must be handed over within c31TrickleBoundBuf of its own push.
	TrickleGapMs int `json:"trickle_gap_ms,omitempty"`
	TrickleCount int `json:"trickle_count,omitempty"`
}

type c31BufCase struct {
	Plans []c31Plan `json:"plans"`
}

var c31NewBufMu sync.Mutex

// c31NewBuf builds the buffer with the package's own constructor (so that whatever it initialises is
// initialised) and then drops the 400 preallocated 64 KB slots: push/pop/swap only move the slot
// slices around and never look inside them. One at a time, to bound the transient 26 MB.
func c31NewBuf() *pktBuffer {
	c31NewBufMu.Lock()
	defer c31NewBufMu.Unlock()
	t0 := time.Now()
	b := newPktBuffer()
	if os.Getenv("VERIF_C31_DEBUG") != "" {
		fmt.Fprintf(os.Stderr, "newPktBuffer took %v\n", time.Since(t0))
	}
	for i := range b.r {
		b.r[i] = nil
	}
	for i := range b.w {
		b.w[i] = nil
	}
	return b
}

// ----- scheduling monitor: tells a starved test process from a slow balancer -----

type c31Sched struct {
	mu    sync.Mutex
	wakes []time.Time // ring of the reference goroutine's wake-ups (it sleeps 10 ms at a time)
	next  int
}

var (
	c31SchedOnce sync.Once
	c31SchedMon  = &c31Sched{wakes: make([]time.Time, 12000)}
)

func c31SchedStart() *c31Sched {
	c31SchedOnce.Do(func() {
		go func() {
			for {
				time.Sleep(10 * time.Millisecond)
				now := time.Now()
				c31SchedMon.mu.Lock()
				c31SchedMon.wakes[c31SchedMon.next%len(c31SchedMon.wakes)] = now
				c31SchedMon.next++
				c31SchedMon.mu.Unlock()
			}
		}()
	})
	return c31SchedMon
}

// starved reports whether the test process was visibly short of CPU between from and to: the reference
// goroutine was late by more than 500 ms at once, or got less than 40% of its wake-ups.
func (m *c31Sched) starved(from, to time.Time) (bool, string) {
	m.mu.Lock()
	defer m.mu.Unlock()
	n, worst := 0, time.Duration(0)
	prev := from
	var ws []time.Time
	for _, w := range m.wakes {
		if !w.IsZero() && !w.Before(from) && !w.After(to) {
			ws = append(ws, w)
		}
	}
	sort.Slice(ws, func(i, j int) bool { return ws[i].Before(ws[j]) })
	for _, w := range ws {
		n++
		if d := w.Sub(prev); d > worst {
			worst = d
		}
		prev = w
	}
	if d := to.Sub(prev); d > worst {
		worst = d
	}
	want := int(to.Sub(from) / (10 * time.Millisecond))
	info := fmt.Sprintf("reference goroutine: %d of ~%d wake-ups, longest gap %v", n, want, worst.Round(time.Millisecond))
	return worst > 500*time.Millisecond || n*10 < want*4, info
}

const c31TrickleBoundBuf = 4 * time.Second // batch timeout 1 s + slack

func c31Pkt(seq int) []byte {
	body := []byte(fmt.Sprintf("c31:%08d:", seq))
	for i := 0; i < seq%7; i++ {
		body = append(body, byte(seq+i))
	}
	p := make([]byte, pktHeadLen, pktHeadLen+len(body))
	binary.LittleEndian.PutUint32(p, uint32(len(body)))
	return append(p, body...)
}

type c31PlanResult struct {
	violation    string
	inconclusive string
	classes      map[string]bool
	accepted     int
}

var c31ErrWrite = errors.New("scripted write error")

func c31RunPlan(p c31Plan) (res c31PlanResult) {
	res.classes = map[string]bool{}
	sched := c31SchedStart()
	b := c31NewBuf()
	var (
		mu        sync.Mutex // protects the fields below (producer and consumer goroutines)
		accepted  [][]byte   // copies of accepted packets, by seq
		acceptAt  []time.Time
		handedAt  []time.Time // first hand-over, zero = not yet
		handed    int         // number of distinct packets handed over at least once
		expNext   int         // seq the next pop must start with
		violation string
		popIdx    int
		scripted  time.Duration // consumer delay scripted so far
	)
	var clsMu sync.Mutex
	class := func(k string) {
		clsMu.Lock()
		res.classes[k] = true
		clsMu.Unlock()
	}
	fail := func(format string, a ...any) {
		if violation == "" {
			violation = fmt.Sprintf(format, a...)
		}
	}
	stop := make(chan struct{})
	done := make(chan struct{})
	go func() { // consumer: what sendLoop does with the buffer
		defer close(done)
		for {
			select {
			case <-stop:
				return
			default:
			}
			_ = b.pop(func(pkts [][]byte) (int, error) {
				now := time.Now()
				mu.Lock()
				var sc c31Pop
				if len(p.Pops) > 0 {
					sc = p.Pops[popIdx%len(p.Pops)]
				}
				popIdx++
				if len(pkts) == 0 {
					fail("pop handed an empty batch to the sender")
				}
				for i, pk := range pkts {
					seq := expNext + i
					if seq >= len(accepted) {
						fail("pop #%d hands over %d packets starting at #%d but only %d were accepted", popIdx, len(pkts), expNext, len(accepted))
						break
					}
					if string(pk) != string(accepted[seq]) {
						fail("pop #%d position %d: got %q, want accepted packet #%d %q (order or content broken)", popIdx, i, pk, seq, accepted[seq])
						break
					}
					if handedAt[seq].IsZero() {
						handedAt[seq] = now
						handed++
					}
				}
				if len(pkts) < bufferLen*20/100 {
					class("batch-below-threshold")
				} else {
					class("batch-at-threshold")
				}
				n, err := 0, error(nil)
				if sc.Fail && len(pkts) > 0 {
					consumed := sc.Consumed % (len(pkts) + 1)
					n, err = len(pkts)-consumed-1, c31ErrWrite // what sendLoop's callback returns: len(bufs)-1
					if n > 0 {
						expNext += len(pkts) - n
						class("failed-write-resend")
					} else {
						expNext += len(pkts)
						class("failed-write-nothing-to-resend")
					}
				} else {
					expNext += len(pkts)
				}
				scripted += time.Duration(sc.DelayMs) * time.Millisecond
				mu.Unlock()
				if sc.DelayMs > 0 {
					time.Sleep(time.Duration(sc.DelayMs) * time.Millisecond)
				}
				return n, err
			})
		}
	}()
	defer func() {
		close(stop)
		b.close()
		select {
		case <-done:
		case <-time.After(c31StuckAfter):
			if res.violation == "" && res.inconclusive == "" {
				res.inconclusive = "consumer goroutine did not stop after close()"
			}
		}
	}()

	lastPush := time.Now()
	pushOne := func(si int) (abort bool) {
		mu.Lock()
		seq := len(accepted)
		mu.Unlock()
		pkt := c31Pkt(seq)
		cp := append([]byte(nil), pkt...)
		b.mu.Lock()
		wiBefore := b.wi
		b.mu.Unlock()
		// the packet must be registered before push returns it to the consumer's view
		mu.Lock()
		accepted = append(accepted, cp)
		acceptAt = append(acceptAt, time.Now())
		handedAt = append(handedAt, time.Time{})
		mu.Unlock()
		_, ok := b.push(pkt)
		if !ok {
			mu.Lock()
			if handedAt[seq].IsZero() { // not accepted: take the registration back
				accepted, acceptAt, handedAt = accepted[:seq], acceptAt[:seq], handedAt[:seq]
			} else {
				fail("step %d: push reported failure but the packet was handed to the sender", si)
			}
			mu.Unlock()
			class("push-refused")
			if wiBefore < bufferLen {
				res.violation = fmt.Sprintf("step %d: push refused although the buffer held %d of %d packets just before", si, wiBefore, bufferLen)
				return true
			}
			return false
		}
		lastPush = time.Now()
		return false
	}
	for si, st := range p.Steps {
		if st.GapMs > 0 {
			time.Sleep(time.Duration(st.GapMs) * time.Millisecond)
		}
		if st.GapMs >= 1100 {
			class("idle-gap-over-1s")
		}
		for k := 0; k < st.Burst; k++ {
			if pushOne(si) {
				return
			}
		}
		mu.Lock()
		v := violation
		mu.Unlock()
		if v != "" {
			res.violation = v
			return
		}
	}
	// steady trickle: every packet has its own deadline
	trickle := p.TrickleCount > 0 && p.TrickleGapMs > 0
	firstOpen := 0 // packets below this index were handed over in time
	tooLate := func() bool {
		now := time.Now()
		mu.Lock()
		defer mu.Unlock()
		for ; firstOpen < len(acceptAt); firstOpen++ {
			i := firstOpen
			var d time.Duration
			if handedAt[i].IsZero() {
				if d = now.Sub(acceptAt[i]); d <= c31TrickleBoundBuf {
					return false // the oldest open packet is still within its bound
				}
			} else if d = handedAt[i].Sub(acceptAt[i]); d <= c31TrickleBoundBuf {
				continue
			}
			starved, info := sched.starved(acceptAt[i], acceptAt[i].Add(d))
			msg := fmt.Sprintf("steady trickle (one packet every %d ms): packet #%d was not handed to the sender within %v of its own push (waited %v so far; %d packets pushed, %d handed over); %s",
				p.TrickleGapMs, i, c31TrickleBoundBuf, d.Round(time.Millisecond), len(acceptAt), handed, info)
			if starved {
				res.inconclusive = "machine starved: " + msg
			} else {
				res.violation = msg
			}
			return true
		}
		return false
	}
	if trickle {
		class("steady-trickle")
		for k := 0; k < p.TrickleCount; k++ {
			time.Sleep(time.Duration(p.TrickleGapMs) * time.Millisecond)
			if pushOne(len(p.Steps)) || tooLate() {
				return
			}
		}
	}
	// idle tail: nothing else will ever arrive; everything accepted must still reach the sender
	mu.Lock()
	res.accepted = len(accepted)
	mu.Unlock()
	if n := len(p.Steps); n > 0 && p.Steps[n-1].Burst > 0 && p.Steps[n-1].Burst < bufferLen*20/100 {
		class("idle-tail-after-small-burst")
		if p.Steps[n-1].Burst == 1 {
			class("idle-tail-after-lone-packet")
		}
	}
	for {
		mu.Lock()
		h, a, v, extra := handed, len(accepted), violation, scripted
		mu.Unlock()
		if v != "" {
			res.violation = v
			return
		}
		if trickle && tooLate() {
			return
		}
		if h == a {
			break
		}
		// deadline moves with the delays the plan itself asked the consumer to make (+ one more pop)
		if time.Since(lastPush) > c31StuckAfter+extra+time.Second {
			mu.Lock()
			first := -1
			for i := range handedAt {
				if handedAt[i].IsZero() {
					first = i
					break
				}
			}
			res.violation = fmt.Sprintf("stuck: %d of %d accepted packets were not handed to the sender %v after the last push (first missing #%d, accepted %v ago); buffer open, nothing else arrives",
				a-h, a, time.Since(lastPush).Round(time.Millisecond), first, time.Since(acceptAt[first]).Round(time.Millisecond))
			mu.Unlock()
			return
		}
		time.Sleep(5 * time.Millisecond)
	}
	mu.Lock()
	var worst time.Duration
	for i := range handedAt {
		if d := handedAt[i].Sub(acceptAt[i]); d > worst {
			worst = d
		}
	}
	mu.Unlock()
	switch {
	case worst > 3*time.Second:
		class("handover-delay-over-3s")
	case worst > 900*time.Millisecond:
		class("handover-by-timeout")
	}
	return
}

func c31BufProp(t vpT, c *c31BufCase) (nontrivial int, classes []string) {
	results := make([]c31PlanResult, len(c.Plans))
	var wg sync.WaitGroup
	for i := range c.Plans {
		wg.Add(1)
		go func() {
			defer wg.Done()
			results[i] = c31RunPlan(c.Plans[i])
		}()
	}
	wg.Wait()
	cls := map[string]int{}
	for i, r := range results {
		if r.violation != "" {
			plan := c.Plans[i]
			c.Plans = []c31Plan{plan} // the replay file keeps only the failing plan
			t.Fatalf("plan %d: %s", i, r.violation)
		}
	}
	for _, r := range results {
		if r.inconclusive != "" {
			t.Fatalf("VP-INCONCLUSIVE C31 pktBuffer: %s", r.inconclusive)
		}
		for k := range r.classes {
			cls[k]++
		}
		if r.classes["idle-tail-after-small-burst"] && r.accepted > 0 {
			nontrivial++
		}
	}
	for k, n := range cls {
		for i := 0; i < n; i++ {
			classes = append(classes, k)
		}
	}
	return nontrivial, classes
}

func c31GenPlan() *rapid.Generator[c31Plan] {
	return rapid.Custom(func(t *rapid.T) c31Plan {
		var p c31Plan
		n := rapid.IntRange(1, 6).Draw(t, "nsteps")
		long := 0
		for i := 0; i < n; i++ {
			var st c31Step
			switch g := rapid.IntRange(0, 9).Draw(t, "gapkind"); {
			case g < 3:
				st.GapMs = 0
			case g < 6:
				st.GapMs = rapid.IntRange(1, 30).Draw(t, "gap")
			case g < 8:
				st.GapMs = rapid.IntRange(100, 600).Draw(t, "gap")
			default:
				if long < 2 {
					long++
					st.GapMs = rapid.IntRange(1050, 1500).Draw(t, "gap")
				}
			}
			switch b := rapid.IntRange(0, 9).Draw(t, "burstkind"); {
			case b < 4:
				st.Burst = 1
			case b < 7:
				st.Burst = rapid.IntRange(2, bufferLen*20/100-1).Draw(t, "burst")
			case b < 9:
				st.Burst = rapid.IntRange(bufferLen*20/100, bufferLen).Draw(t, "burst")
			default:
				st.Burst = rapid.IntRange(bufferLen+1, 3*bufferLen).Draw(t, "burst")
			}
			p.Steps = append(p.Steps, st)
		}
		if rapid.IntRange(0, 2).Draw(t, "slowConsumer") == 0 {
			np := rapid.IntRange(1, 4).Draw(t, "npops")
			for i := 0; i < np; i++ {
				sc := c31Pop{DelayMs: rapid.SampledFrom([]int{0, 0, 1, 5, 40, 150}).Draw(t, "delay")}
				if rapid.IntRange(0, 2).Draw(t, "fail") == 0 {
					sc.Fail = true
					if sc.DelayMs > 1 { // a failing script may need one pop per packet: keep those short
						sc.DelayMs = 1
					}
					sc.Consumed = rapid.IntRange(0, bufferLen).Draw(t, "consumed")
				}
				p.Pops = append(p.Pops, sc)
			}
		}
		return p
	})
}

func c31BufPlansPerCase() int {
	return 48
}

func TestVerifC31Buf(t *testing.T) {
	t.Parallel() // real-time checks: runs alongside TestVerifC31Egress
	ev := vpNewEv(t, "C31", "pktbuffer")
	rapid.Check(t, func(rt *rapid.T) {
		c := &c31BufCase{Plans: rapid.SliceOfN(c31GenPlan(), c31BufPlansPerCase(), c31BufPlansPerCase()).Draw(rt, "plans")}
		all := append([]c31Plan(nil), c.Plans...)
		vpRunCase(rt, "C31", "pktbuffer", c, func() {
			_, cls := c31BufProp(rt, c)
			// evidence is counted per plan, not per batch
			for _, p := range all {
				nt := len(p.Steps) > 0 && p.Steps[len(p.Steps)-1].Burst < bufferLen*20/100
				ev.Case(nt, p)
			}
			for _, k := range cls {
				ev.Class(k, 1)
			}
		})
	})
}

func init() {
	vpReplayers["C31/pktbuffer"] = func(t vpT, raw json.RawMessage) {
		var c c31BufCase
		if err := json.Unmarshal(raw, &c); err != nil {
			t.Fatalf("decode: %v", err)
		}
		c31BufProp(t, &c)
	}
}
