//go:build verif

package balancer

import (
	"encoding/json"
	"sync"
	"testing"

	"pgregory.net/rapid"
)

// ---------- C31: steady trickle (both levels) ----------
//
// One packet every 150-800 ms for 10-20 s: far below the 20% batch threshold (40 packets), gaps shorter
// than the 1 s batch timeout. The statement's bounded delay is per packet ("within about one second ...
// even if no further packets arrive"), so here every packet has its own deadline: handed to the sender
// within 4 s (pktBuffer) / received upstream within 5 s (Egress) of its own acceptance. "Nothing moved
// for 8 s" cannot see a batch timeout that is re-armed by every arrival; this can. If a deadline is
// missed while the reference goroutine shows that the test process itself was starved of CPU, the
// result is VP-INCONCLUSIVE, never a violation.
//
// These plans take 10-20 s each, so they run in their own test function, in parallel with the other
// two, and only every third rapid case is executed (the others return at once).

type c31TCase struct {
	Buf    []c31Plan  `json:"buf"`
	Egress []c31EPlan `json:"egress"`
}

const (
	c31TBufPlans    = 14
	c31TEgressPlans = 2
	c31TEvery       = 3
)

func c31TrickleProp(t vpT, c *c31TCase) (bufRes []c31PlanResult, egRes []c31EResult) {
	bufRes = make([]c31PlanResult, len(c.Buf))
	egRes = make([]c31EResult, len(c.Egress))
	var wg sync.WaitGroup
	for i := range c.Buf {
		wg.Add(1)
		go func() { defer wg.Done(); bufRes[i] = c31RunPlan(c.Buf[i]) }()
	}
	for i := range c.Egress {
		wg.Add(1)
		go func() { defer wg.Done(); egRes[i] = c31RunEgress(c.Egress[i]) }()
	}
	wg.Wait()
	for i, r := range bufRes {
		if r.violation != "" {
			*c = c31TCase{Buf: []c31Plan{c.Buf[i]}} // the replay file keeps only the failing plan
			t.Fatalf("pktBuffer plan %d: %s", i, r.violation)
		}
	}
	for i, r := range egRes {
		if r.violation != "" {
			*c = c31TCase{Egress: []c31EPlan{c.Egress[i]}}
			t.Fatalf("egress plan %d: %s", i, r.violation)
		}
	}
	for _, r := range bufRes {
		if r.inconclusive != "" {
			t.Fatalf("VP-INCONCLUSIVE C31 trickle (pktBuffer): %s", r.inconclusive)
		}
	}
	for _, r := range egRes {
		if r.inconclusive != "" {
			t.Fatalf("VP-INCONCLUSIVE C31 trickle (egress): %s", r.inconclusive)
		}
	}
	return
}

func c31GenTrickle(t *rapid.T) (gapMs, count int) {
	gapMs = rapid.IntRange(150, 800).Draw(t, "gap")
	durMs := rapid.IntRange(10000, 20000).Draw(t, "duration")
	return gapMs, max(durMs/gapMs, 2)
}

func TestVerifC31Trickle(t *testing.T) {
	t.Parallel()
	ev := vpNewEv(t, "C31", "trickle")
	ncase := 0
	rapid.Check(t, func(rt *rapid.T) {
		c := &c31TCase{}
		for i := 0; i < c31TBufPlans; i++ {
			g, n := c31GenTrickle(rt)
			c.Buf = append(c.Buf, c31Plan{TrickleGapMs: g, TrickleCount: n})
		}
		for i := 0; i < c31TEgressPlans; i++ {
			g, n := c31GenTrickle(rt)
			c.Egress = append(c.Egress, c31EPlan{TrickleGapMs: g, TrickleCount: n, TrickleSize: rapid.IntRange(12, 4000).Draw(rt, "size")})
		}
		idx := ncase
		ncase++
		if idx%c31TEvery != 0 {
			return // time budget: see above
		}
		all := *c
		vpRunCase(rt, "C31", "trickle", c, func() {
			c31TrickleProp(rt, c)
			for _, p := range all.Buf {
				ev.Case(true, p, "steady-trickle-pktbuffer")
			}
			for _, p := range all.Egress {
				ev.Case(true, p, "steady-trickle-egress")
			}
		})
	})
}

func init() {
	vpReplayers["C31/trickle"] = func(t vpT, raw json.RawMessage) {
		var c c31TCase
		if err := json.Unmarshal(raw, &c); err != nil {
			t.Fatalf("decode: %v", err)
		}
		c31TrickleProp(t, &c)
	}
}
