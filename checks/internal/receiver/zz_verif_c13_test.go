//go:build verif

package receiver

// C13 — all client wire formats decode the same batch identically and safely.
//
// Sub-checks
//   xformat : model batch -> four encoders written here (TL, JSON, MessagePack, Protobuf; from public.tl,
//             docs/protocol.md, statshouse.proto and the respective wire specifications) -> parser.parse ->
//             the HandleMetrics callback sequence must equal the model, field by field, for every format.
//             One tlstatshouse.AddMetricsBatchBytes and one scratch are shared by the four calls, like
//             UDP.Serve does.
//   robust  : arbitrary / mutated / length-inflated packets. (1) a canary child process (address space
//             limited) must survive the packet and answer in time: no panic, no fatal error, no hang;
//             (2) in-process, parse must behave as "detect the format from the first bytes as documented,
//             run that decoder until the packet is consumed or a batch fails": same metrics, error iff the
//             decoder failed, HandleParseError exactly then; (3) whatever was accepted re-encodes with the
//             four encoders and decodes to the same metrics again.
//   fuzz    : FuzzVerifC13* run oracle (2)+(3) on native-fuzz inputs (thorough tier only).

import (
	"bytes"
	"encoding/binary"
	"encoding/json"
	"fmt"
	"io"
	"math"
	"net"
	"os"
	"os/exec"
	"sort"
	"strconv"
	"strings"
	"sync"
	"sync/atomic"
	"syscall"
	"testing"
	"time"
	"unicode/utf8"

	"pgregory.net/rapid"

	"github.com/VKCOM/statshouse/internal/data_model"
	"github.com/VKCOM/statshouse/internal/data_model/gen2/tlstatshouse"
)

// ---------------------------------------------------------------- model

type c13Tag struct {
	K string `json:"k"`
	V string `json:"v"`
}

type c13Metric struct {
	Name string      `json:"name"`
	Tags []c13Tag    `json:"tags,omitempty"`
	HasC bool        `json:"has_c,omitempty"`
	C    vpF         `json:"c,omitempty"`
	HasT bool        `json:"has_t,omitempty"`
	T    uint32      `json:"t,omitempty"`
	HasV bool        `json:"has_v,omitempty"`
	V    []vpF       `json:"v,omitempty"`
	HasU bool        `json:"has_u,omitempty"`
	U    []int64     `json:"u,omitempty"`
	HasH bool        `json:"has_h,omitempty"`
	H    [][2]vpF    `json:"h,omitempty"`
	raw  [][2][]byte // tags as raw bytes (models derived from decoder output only; never serialised)
	rawN []byte
}

// encoding choices; every format accepts all of them per its wire specification
type c13Enc struct {
	Seed  uint64 `json:"seed"`            // per-element choices (deterministic splitmix)
	JS    int    `json:"js"`              // 0 compact canonical, 1 whitespace, 2 shuffled keys + \u escapes + exponent floats
	MP    int    `json:"mp"`              // 0 minimal headers, 1 widest headers, 2 mixed + unknown keys + float32 + shuffled keys
	PB    int    `json:"pb"`              // 0 canonical proto3, 1 unpacked repeated scalars, 2 explicit zeros + shuffled fields + unknown fields, 3 mixed, 4 repeated scalars split into several records (packed chunks and singles)
	Split []int  `json:"split,omitempty"` // TL / MessagePack: the metrics are sent as several concatenated batches (sizes)
	Order []int  `json:"order,omitempty"` // order in which the formats are decoded with the shared batch object
}

type c13Batch struct {
	Metrics []c13Metric `json:"metrics"`
	Enc     c13Enc      `json:"enc"`
}

type c13Rng struct{ s uint64 }

func (r *c13Rng) next() uint64 {
	r.s += 0x9e3779b97f4a7c15
	z := r.s
	z = (z ^ (z >> 30)) * 0xbf58476d1ce4e5b9
	z = (z ^ (z >> 27)) * 0x94d049bb133111eb
	return z ^ (z >> 31)
}
func (r *c13Rng) n(k int) int {
	if k <= 1 {
		return 0
	}
	return int(r.next() % uint64(k))
}
func (r *c13Rng) perm(k int) []int {
	p := make([]int, k)
	for i := range p {
		p[i] = i
	}
	for i := k - 1; i > 0; i-- {
		j := r.n(i + 1)
		p[i], p[j] = p[j], p[i]
	}
	return p
}

// normal form of one decoded / expected metric: absent == zero / empty (the consumers look at values, not at the mask)
type c13Norm struct {
	Name string
	Tags []string // "k\x00v", sorted (tags are a map)
	C    uint64
	T    uint32
	V    []uint64
	U    []int64
	H    [][2]uint64
}

func c13Bits(f float64) uint64 {
	if f != f {
		return 0x7ff8000000000001 // all NaNs are one value
	}
	return math.Float64bits(f)
}

func (m *c13Metric) norm() c13Norm {
	n := c13Norm{Name: m.Name}
	if m.rawN != nil {
		n.Name = string(m.rawN)
	}
	if m.raw != nil {
		for _, t := range m.raw {
			n.Tags = append(n.Tags, string(t[0])+"\x00"+string(t[1]))
		}
	} else {
		for _, t := range m.Tags {
			n.Tags = append(n.Tags, t.K+"\x00"+t.V)
		}
	}
	sort.Strings(n.Tags)
	if m.HasC {
		n.C = c13Bits(float64(m.C))
	}
	if m.HasT {
		n.T = m.T
	}
	if m.HasV {
		for _, v := range m.V {
			n.V = append(n.V, c13Bits(float64(v)))
		}
	}
	if m.HasU {
		n.U = append(n.U, m.U...)
	}
	if m.HasH {
		for _, h := range m.H {
			n.H = append(n.H, [2]uint64{c13Bits(float64(h[0])), c13Bits(float64(h[1]))})
		}
	}
	return n
}

func c13NormOf(m *tlstatshouse.MetricBytes) c13Norm {
	n := c13Norm{Name: string(m.Name), C: c13Bits(m.Counter), T: m.Ts}
	for _, t := range m.Tags {
		n.Tags = append(n.Tags, string(t.Key)+"\x00"+string(t.Value))
	}
	sort.Strings(n.Tags)
	for _, v := range m.Value {
		n.V = append(n.V, c13Bits(v))
	}
	n.U = append(n.U, m.Unique...)
	for _, h := range m.Histogram {
		n.H = append(n.H, [2]uint64{c13Bits(h[0]), c13Bits(h[1])})
	}
	return n
}

func (n c13Norm) String() string {
	return fmt.Sprintf("{name=%q tags=%q c=%v ts=%d v=%x u=%v h=%x}", n.Name, n.Tags, math.Float64frombits(n.C), n.T, n.V, n.U, n.H)
}

func c13NormEq(a, b c13Norm) bool { return a.String() == b.String() }

// model derived from what a decoder produced (for the re-encode oracle)
func c13ModelOf(m *tlstatshouse.MetricBytes) c13Metric {
	r := c13Metric{rawN: append([]byte{}, m.Name...), raw: [][2][]byte{}}
	for _, t := range m.Tags {
		r.raw = append(r.raw, [2][]byte{append([]byte{}, t.Key...), append([]byte{}, t.Value...)})
	}
	if m.Counter != 0 || m.IsSetCounter() {
		r.HasC, r.C = true, vpF(m.Counter)
	}
	if m.Ts != 0 || m.IsSetTs() {
		r.HasT, r.T = true, m.Ts
	}
	if len(m.Value) != 0 || m.IsSetValue() {
		r.HasV = true
		for _, v := range m.Value {
			r.V = append(r.V, vpF(v))
		}
	}
	if len(m.Unique) != 0 || m.IsSetUnique() {
		r.HasU = true
		r.U = append(r.U, m.Unique...)
	}
	if len(m.Histogram) != 0 || m.IsSetHistogram() {
		r.HasH = true
		for _, h := range m.Histogram {
			r.H = append(r.H, [2]vpF{vpF(h[0]), vpF(h[1])})
		}
	}
	return r
}

func (m *c13Metric) name() []byte {
	if m.rawN != nil {
		return m.rawN
	}
	return []byte(m.Name)
}

func (m *c13Metric) tags() [][2][]byte {
	if m.raw != nil {
		return m.raw
	}
	r := make([][2][]byte, len(m.Tags))
	for i, t := range m.Tags {
		r[i] = [2][]byte{[]byte(t.K), []byte(t.V)}
	}
	return r
}

// inflation hook shared by the TL and MessagePack encoders: the idx-th collection header is written with count `to`
type c13Inflate struct {
	at, seen int
	to       uint32
	hit      bool
}

func (f *c13Inflate) count(n int) (uint32, bool) {
	if f == nil {
		return uint32(n), false
	}
	f.seen++
	if f.seen-1 == f.at {
		f.hit = true
		return f.to, true
	}
	return uint32(n), false
}

// ---------------------------------------------------------------- TL encoder (public.tl + TL serialisation rules)

func c13TLString(w []byte, s []byte) []byte {
	start := len(w)
	if len(s) < 254 {
		w = append(w, byte(len(s)))
	} else {
		w = append(w, 254, byte(len(s)), byte(len(s)>>8), byte(len(s)>>16))
	}
	w = append(w, s...)
	for (len(w)-start)%4 != 0 {
		w = append(w, 0)
	}
	return w
}

func c13TLU32(w []byte, v uint32) []byte { return binary.LittleEndian.AppendUint32(w, v) }
func c13TLF64(w []byte, v float64) []byte {
	return binary.LittleEndian.AppendUint64(w, math.Float64bits(v))
}

func c13EncTLBatch(w []byte, ms []c13Metric, inf *c13Inflate) []byte {
	w = c13TLU32(w, 0x56580239)
	w = c13TLU32(w, 0) // fields_mask
	n, _ := inf.count(len(ms))
	w = c13TLU32(w, n)
	for i := range ms {
		m := &ms[i]
		var mask uint32
		if m.HasC {
			mask |= 1 << 0
		}
		if m.HasV {
			mask |= 1 << 1
		}
		if m.HasU {
			mask |= 1 << 2
		}
		if m.HasH {
			mask |= 1 << 3
		}
		if m.HasT {
			mask |= 1 << 4
		}
		w = c13TLU32(w, mask)
		w = c13TLString(w, m.name())
		tags := m.tags()
		n, _ = inf.count(len(tags))
		w = c13TLU32(w, n)
		for _, t := range tags {
			w = c13TLString(w, t[0])
			w = c13TLString(w, t[1])
		}
		if m.HasC {
			w = c13TLF64(w, float64(m.C))
		}
		if m.HasT {
			w = c13TLU32(w, m.T)
		}
		if m.HasV {
			n, _ = inf.count(len(m.V))
			w = c13TLU32(w, n)
			for _, v := range m.V {
				w = c13TLF64(w, float64(v))
			}
		}
		if m.HasU {
			n, _ = inf.count(len(m.U))
			w = c13TLU32(w, n)
			for _, u := range m.U {
				w = binary.LittleEndian.AppendUint64(w, uint64(u))
			}
		}
		if m.HasH {
			n, _ = inf.count(len(m.H))
			w = c13TLU32(w, n)
			for _, h := range m.H {
				w = c13TLF64(w, float64(h[0]))
				w = c13TLF64(w, float64(h[1]))
			}
		}
	}
	return w
}

func c13Chunks(ms []c13Metric, split []int) [][]c13Metric {
	if len(split) == 0 {
		return [][]c13Metric{ms}
	}
	var res [][]c13Metric
	pos := 0
	for _, s := range split {
		if s < 0 {
			s = 0
		}
		if pos+s > len(ms) {
			s = len(ms) - pos
		}
		res = append(res, ms[pos:pos+s])
		pos += s
	}
	if pos < len(ms) || len(res) == 0 {
		res = append(res, ms[pos:])
	}
	return res
}

func c13EncTL(b *c13Batch, inf *c13Inflate) []byte {
	var w []byte
	for _, ch := range c13Chunks(b.Metrics, b.Enc.Split) {
		w = c13EncTLBatch(w, ch, inf)
	}
	return w
}

// ---------------------------------------------------------------- JSON encoder (RFC 8259)

func c13JSONString(w []byte, s []byte, escapeAll bool, isKey bool) []byte {
	w = append(w, '"')
	for len(s) > 0 {
		r, sz := utf8.DecodeRune(s)
		s = s[sz:]
		switch {
		case r == '"':
			w = append(w, '\\', '"')
		case r == '\\':
			w = append(w, '\\', '\\')
		case r == '\n' && !escapeAll:
			w = append(w, '\\', 'n')
		case r == '\t' && !escapeAll:
			w = append(w, '\\', 't')
		case r == '/' && escapeAll && !isKey:
			w = append(w, '\\', '/')
		case r < 0x20 || (escapeAll && !isKey && r >= 0x7f):
			if r >= 0x10000 {
				r1, r2 := (r-0x10000)>>10+0xd800, (r-0x10000)&0x3ff+0xdc00
				w = append(w, fmt.Sprintf("\\u%04x\\u%04X", r1, r2)...)
			} else {
				w = append(w, fmt.Sprintf("\\u%04x", r)...)
			}
		default:
			w = utf8.AppendRune(w, r)
		}
	}
	return append(w, '"')
}

func c13JSONFloat(w []byte, f float64, style int, r *c13Rng) []byte {
	switch {
	case style == 0:
		return strconv.AppendFloat(w, f, 'g', -1, 64)
	case style == 1:
		return strconv.AppendFloat(w, f, 'f', -1, 64)
	}
	switch r.n(4) {
	case 0:
		s := strconv.FormatFloat(f, 'e', -1, 64)
		return append(w, strings.ToUpper(s)...) // 1.5E+00
	case 1:
		if f == math.Trunc(f) && math.Abs(f) < 1e15 {
			return append(strconv.AppendFloat(w, f, 'f', -1, 64), ".0"...)
		}
		return strconv.AppendFloat(w, f, 'g', -1, 64)
	case 2:
		return strconv.AppendFloat(w, f, 'f', -1, 64)
	}
	return strconv.AppendFloat(w, f, 'g', 17, 64)
}

// reports false when JSON cannot carry the batch (non-finite numbers, invalid UTF-8, member names that need escaping)
func c13JSONCapable(ms []c13Metric) bool {
	fin := func(f vpF) bool { return !math.IsNaN(float64(f)) && !math.IsInf(float64(f), 0) }
	for i := range ms {
		m := &ms[i]
		if !utf8.Valid(m.name()) || (m.HasC && !fin(m.C)) {
			return false
		}
		for _, t := range m.tags() {
			if !utf8.Valid(t[0]) || !utf8.Valid(t[1]) {
				return false
			}
			for _, c := range t[0] { // member names are not unescaped by the reader, so they must not need escaping
				if c < 0x20 || c == '"' || c == '\\' {
					return false
				}
			}
		}
		if m.HasV {
			for _, v := range m.V {
				if !fin(v) {
					return false
				}
			}
		}
		if m.HasH {
			for _, h := range m.H {
				if !fin(h[0]) || !fin(h[1]) {
					return false
				}
			}
		}
	}
	return true
}

func c13EncJSON(b *c13Batch) []byte {
	st := b.Enc.JS
	r := &c13Rng{s: b.Enc.Seed ^ 0x6a736f6e}
	sp := func(w []byte) []byte {
		switch {
		case st == 1:
			return append(w, ' ')
		case st == 2:
			return append(w, []string{"", " ", "\n", "\t ", "\r\n"}[r.n(5)]...)
		}
		return w
	}
	w := []byte{'{'} // never any leading white space: documented to break detection
	w = sp(w)
	w = append(w, `"metrics"`...)
	w = sp(w)
	w = append(w, ':')
	w = sp(w)
	w = append(w, '[')
	for i := range b.Metrics {
		m := &b.Metrics[i]
		if i > 0 {
			w = append(w, ',')
		}
		w = sp(w)
		w = append(w, '{')
		type field struct {
			key string
			put func(w []byte) []byte
		}
		var fs []field
		if len(m.name()) != 0 || r.n(2) == 0 {
			fs = append(fs, field{"name", func(w []byte) []byte { return c13JSONString(w, m.name(), st == 2, false) }})
		}
		tags := m.tags()
		if len(tags) != 0 || r.n(2) == 0 {
			fs = append(fs, field{"tags", func(w []byte) []byte {
				w = append(w, '{')
				for j, t := range tags {
					if j > 0 {
						w = append(w, ',')
					}
					w = sp(w)
					w = c13JSONString(w, t[0], false, true)
					w = sp(w)
					w = append(w, ':')
					w = sp(w)
					w = c13JSONString(w, t[1], st == 2 && r.n(2) == 0, false)
				}
				w = sp(w)
				return append(w, '}')
			}})
		}
		if m.HasC {
			fs = append(fs, field{"counter", func(w []byte) []byte { return c13JSONFloat(w, float64(m.C), st, r) }})
		}
		if m.HasT {
			fs = append(fs, field{"ts", func(w []byte) []byte { return strconv.AppendUint(w, uint64(m.T), 10) }})
		}
		if m.HasV {
			fs = append(fs, field{"value", func(w []byte) []byte {
				w = append(w, '[')
				for j, v := range m.V {
					if j > 0 {
						w = append(w, ',')
					}
					w = sp(w)
					w = c13JSONFloat(w, float64(v), st, r)
				}
				w = sp(w)
				return append(w, ']')
			}})
		}
		if m.HasU {
			fs = append(fs, field{"unique", func(w []byte) []byte {
				w = append(w, '[')
				for j, v := range m.U {
					if j > 0 {
						w = append(w, ',')
					}
					w = sp(w)
					w = strconv.AppendInt(w, v, 10)
				}
				w = sp(w)
				return append(w, ']')
			}})
		}
		if m.HasH {
			fs = append(fs, field{"histogram", func(w []byte) []byte {
				w = append(w, '[')
				for j, h := range m.H {
					if j > 0 {
						w = append(w, ',')
					}
					w = sp(w)
					w = append(w, '[')
					w = c13JSONFloat(w, float64(h[0]), st, r)
					w = append(w, ',')
					w = sp(w)
					w = c13JSONFloat(w, float64(h[1]), st, r)
					w = append(w, ']')
				}
				w = sp(w)
				return append(w, ']')
			}})
		}
		order := make([]int, len(fs))
		for j := range order {
			order[j] = j
		}
		if st == 2 {
			order = r.perm(len(fs))
		}
		for j, o := range order {
			if j > 0 {
				w = append(w, ',')
			}
			w = sp(w)
			w = append(w, '"')
			w = append(w, fs[o].key...)
			w = append(w, '"')
			w = sp(w)
			w = append(w, ':')
			w = sp(w)
			w = fs[o].put(w)
		}
		w = sp(w)
		w = append(w, '}')
	}
	w = sp(w)
	w = append(w, ']')
	w = sp(w)
	w = append(w, '}')
	if st != 0 {
		w = sp(w)
	}
	return w
}

// ---------------------------------------------------------------- MessagePack encoder (msgpack spec + docs/protocol.md)

type c13MP struct {
	w     []byte
	style int
	r     *c13Rng
	inf   *c13Inflate
}

func (e *c13MP) wide() int { // 0 minimal, 1 next wider, 2 widest
	switch e.style {
	case 0:
		return 0
	case 1:
		return 2
	}
	return e.r.n(3)
}

func (e *c13MP) hdr(n int, fix, m16, m32 byte, fixMax int) {
	c, inflated := e.inf.count(n)
	wd := e.wide()
	switch {
	case inflated:
		e.w = append(e.w, m32, byte(c>>24), byte(c>>16), byte(c>>8), byte(c))
	case wd == 0 && n <= fixMax:
		e.w = append(e.w, fix|byte(n))
	case wd <= 1 && n <= 0xffff:
		e.w = append(e.w, m16, byte(n>>8), byte(n))
	default:
		e.w = append(e.w, m32, byte(n>>24), byte(n>>16), byte(n>>8), byte(n))
	}
}
func (e *c13MP) mapHdr(n int) { e.hdr(n, 0x80, 0xde, 0xdf, 15) }
func (e *c13MP) arrHdr(n int) { e.hdr(n, 0x90, 0xdc, 0xdd, 15) }

func (e *c13MP) str(s []byte) {
	n := len(s)
	wd := e.wide()
	switch {
	case wd == 0 && n <= 31:
		e.w = append(e.w, 0xa0|byte(n))
	case wd == 0 && n <= 0xff || wd == 1 && n <= 0xff && e.r.n(2) == 0:
		e.w = append(e.w, 0xd9, byte(n))
	case wd <= 1 && n <= 0xffff:
		e.w = append(e.w, 0xda, byte(n>>8), byte(n))
	default:
		e.w = append(e.w, 0xdb, byte(n>>24), byte(n>>16), byte(n>>8), byte(n))
	}
	e.w = append(e.w, s...)
}

func (e *c13MP) f64(f float64) {
	if e.style == 2 && e.r.n(2) == 0 && float64(float32(f)) == f && !(f == 0 && math.Signbit(f)) {
		e.w = append(e.w, 0xca)
		e.w = binary.BigEndian.AppendUint32(e.w, math.Float32bits(float32(f)))
		return
	}
	e.w = append(e.w, 0xcb)
	e.w = binary.BigEndian.AppendUint64(e.w, math.Float64bits(f))
}

func (e *c13MP) uint(v uint64) {
	wd := e.wide()
	switch {
	case wd == 0 && v <= 0x7f:
		e.w = append(e.w, byte(v))
	case wd == 0 && v <= 0xff:
		e.w = append(e.w, 0xcc, byte(v))
	case wd == 0 && v <= 0xffff:
		e.w = append(e.w, 0xcd, byte(v>>8), byte(v))
	case wd <= 1 && v <= 0xffffffff:
		e.w = append(e.w, 0xce)
		e.w = binary.BigEndian.AppendUint32(e.w, uint32(v))
	default:
		e.w = append(e.w, 0xcf)
		e.w = binary.BigEndian.AppendUint64(e.w, v)
	}
}

func (e *c13MP) int(v int64) {
	if v >= 0 && (e.style != 2 || e.r.n(2) == 0) {
		e.uint(uint64(v))
		return
	}
	wd := e.wide()
	switch {
	case wd == 0 && v >= -32 && v < 0:
		e.w = append(e.w, byte(v))
	case wd == 0 && v >= -128 && v <= 127:
		e.w = append(e.w, 0xd0, byte(v))
	case wd == 0 && v >= -32768 && v <= 32767:
		e.w = append(e.w, 0xd1, byte(v>>8), byte(v))
	case wd <= 1 && v >= math.MinInt32 && v <= math.MaxInt32:
		e.w = append(e.w, 0xd2)
		e.w = binary.BigEndian.AppendUint32(e.w, uint32(int32(v)))
	default:
		e.w = append(e.w, 0xd3)
		e.w = binary.BigEndian.AppendUint64(e.w, uint64(v))
	}
}

// some value of an unknown member; the decoders must skip it
func (e *c13MP) junk(depth int) {
	switch e.r.n(8) {
	case 0:
		e.w = append(e.w, 0xc0) // nil
	case 1:
		e.w = append(e.w, 0xc3) // true
	case 2:
		e.int(int64(e.r.next()))
	case 3:
		e.f64(float64(e.r.n(1000)) / 8)
	case 4:
		e.str([]byte("junk"))
	case 5:
		e.w = append(e.w, 0xc4, 3, 1, 2, 3) // bin8
	case 6:
		if depth < 2 {
			k := e.r.n(3)
			e.w = append(e.w, 0x90|byte(k))
			for i := 0; i < k; i++ {
				e.junk(depth + 1)
			}
			return
		}
		e.w = append(e.w, 0xc2)
	default:
		if depth < 2 {
			k := e.r.n(3)
			e.w = append(e.w, 0x80|byte(k))
			for i := 0; i < k; i++ {
				e.str([]byte{'k', byte('0' + i)})
				e.junk(depth + 1)
			}
			return
		}
		e.w = append(e.w, 0xd4, 5, 0) // fixext1
	}
}

func (e *c13MP) metric(m *c13Metric) {
	type field struct {
		key string
		put func()
	}
	var fs []field
	if len(m.name()) != 0 || e.r.n(2) == 0 {
		fs = append(fs, field{"name", func() { e.str(m.name()) }})
	}
	tags := m.tags()
	if len(tags) != 0 || e.r.n(2) == 0 {
		fs = append(fs, field{"tags", func() {
			e.mapHdr(len(tags))
			for _, t := range tags {
				e.str(t[0])
				e.str(t[1])
			}
		}})
	}
	if m.HasC {
		fs = append(fs, field{"counter", func() { e.f64(float64(m.C)) }})
	}
	if m.HasT {
		fs = append(fs, field{"ts", func() { e.uint(uint64(m.T)) }})
	}
	if m.HasV {
		fs = append(fs, field{"value", func() {
			e.arrHdr(len(m.V))
			for _, v := range m.V {
				e.f64(float64(v))
			}
		}})
	}
	if m.HasU {
		fs = append(fs, field{"unique", func() {
			e.arrHdr(len(m.U))
			for _, v := range m.U {
				e.int(v)
			}
		}})
	}
	if m.HasH {
		fs = append(fs, field{"histogram", func() {
			e.arrHdr(len(m.H))
			for _, h := range m.H {
				e.w = append(e.w, 0x92)
				e.f64(float64(h[0]))
				e.f64(float64(h[1]))
			}
		}})
	}
	if e.style == 2 {
		for k := e.r.n(3); k > 0; k-- {
			fs = append(fs, field{"x_unknown" + strconv.Itoa(k), func() { e.junk(0) }})
		}
		p := e.r.perm(len(fs))
		fs2 := make([]field, len(fs))
		for i, o := range p {
			fs2[i] = fs[o]
		}
		fs = fs2
	}
	// the member count of a metric object is not a collection length the decoder allocates for: never inflated
	save := e.inf
	e.inf = nil
	e.mapHdr(len(fs))
	e.inf = save
	for _, f := range fs {
		e.str([]byte(f.key))
		f.put()
	}
}

func c13EncMsgpack(b *c13Batch, inf *c13Inflate) []byte {
	e := &c13MP{style: b.Enc.MP, r: &c13Rng{s: b.Enc.Seed ^ 0x6d7067}, inf: inf}
	for _, ch := range c13Chunks(b.Metrics, b.Enc.Split) {
		extra := 0
		if e.style == 2 {
			extra = e.r.n(2)
		}
		pos := 0
		if extra == 1 {
			pos = e.r.n(2)
		}
		save := e.inf
		e.inf = nil
		e.mapHdr(1 + extra)
		e.inf = save
		if extra == 1 && pos == 0 {
			e.str([]byte("other"))
			e.junk(0)
		}
		e.str([]byte("metrics"))
		e.arrHdr(len(ch))
		for i := range ch {
			e.metric(&ch[i])
		}
		if extra == 1 && pos == 1 {
			e.str([]byte("zzz"))
			e.junk(0)
		}
	}
	return e.w
}

// ---------------------------------------------------------------- Protobuf encoder (protobuf wire format + statshouse.proto)

func c13PBVarint(w []byte, v uint64) []byte {
	for v >= 0x80 {
		w = append(w, byte(v)|0x80)
		v >>= 7
	}
	return append(w, byte(v))
}
func c13PBTag(w []byte, field int, wt int) []byte { return c13PBVarint(w, uint64(field)<<3|uint64(wt)) }
func c13PBBytes(w []byte, field int, b []byte) []byte {
	w = c13PBTag(w, field, 2)
	w = c13PBVarint(w, uint64(len(b)))
	return append(w, b...)
}
func c13PBFixed64(w []byte, field int, v uint64) []byte {
	w = c13PBTag(w, field, 1)
	return binary.LittleEndian.AppendUint64(w, v)
}

// an unknown field (number outside the schema); parsers must skip it
func c13PBUnknown(w []byte, r *c13Rng) []byte {
	f := 20 + r.n(100)
	switch r.n(4) {
	case 0:
		w = c13PBTag(w, f, 0)
		return c13PBVarint(w, r.next())
	case 1:
		return c13PBFixed64(w, f, r.next())
	case 2:
		return c13PBBytes(w, f, []byte("unknown"))
	}
	w = c13PBTag(w, f, 5)
	return binary.LittleEndian.AppendUint32(w, uint32(r.next()))
}

func c13EncPBMetric(m *c13Metric, st int, r *c13Rng) []byte {
	mixed := st == 3
	explicitZero := st == 2 || (mixed && r.n(2) == 0)
	unpackedV := st == 1 || (mixed && r.n(2) == 0)
	unpackedU := st == 1 || (mixed && r.n(2) == 0)
	var parts [][]byte
	if len(m.name()) != 0 || explicitZero {
		parts = append(parts, c13PBBytes(nil, 1, m.name()))
	}
	var tagParts [][]byte
	for _, t := range m.tags() {
		var e []byte
		kv := [][]byte{nil, nil}
		if len(t[0]) != 0 || explicitZero {
			kv[0] = c13PBBytes(nil, 1, t[0])
		}
		if len(t[1]) != 0 || explicitZero {
			kv[1] = c13PBBytes(nil, 2, t[1])
		}
		if (st == 2 || mixed) && r.n(2) == 0 {
			kv[0], kv[1] = kv[1], kv[0]
		}
		e = append(e, kv[0]...)
		if (st == 2 || mixed) && r.n(3) == 0 {
			e = c13PBUnknown(e, r)
		}
		e = append(e, kv[1]...)
		tagParts = append(tagParts, c13PBBytes(nil, 2, e))
	}
	parts = append(parts, bytes.Join(tagParts, nil)) // repeated field: element order is kept
	if m.HasC && (float64(m.C) != 0 || math.Signbit(float64(m.C)) || explicitZero) {
		parts = append(parts, c13PBFixed64(nil, 3, math.Float64bits(float64(m.C))))
	}
	if m.HasT && (m.T != 0 || explicitZero) {
		parts = append(parts, c13PBVarint(c13PBTag(nil, 4, 0), uint64(m.T)))
	}
	// A repeated scalar field may arrive as any sequence of records of its field number, packed chunks and non-packed
	// single elements mixed; the parser must concatenate them in order (protobuf encoding guide, "packed repeated fields").
	split := st == 4 || (mixed && r.n(2) == 0)
	chunks := func(n int) (sizes []int) { // st 4: at least two records whenever there are >= 2 elements
		if !split || n < 2 {
			return []int{n}
		}
		for left := n; left > 0; {
			k := 1 + r.n(left)
			if len(sizes) == 0 && k == n {
				k = 1 + r.n(n-1)
			}
			sizes = append(sizes, k)
			left -= k
		}
		return sizes
	}
	if m.HasV && len(m.V) > 0 {
		var p []byte
		pos := 0
		for _, k := range chunks(len(m.V)) {
			if (unpackedV && !split) || (split && k == 1 && r.n(2) == 0) {
				for _, v := range m.V[pos : pos+k] {
					p = c13PBFixed64(p, 5, math.Float64bits(float64(v)))
				}
			} else {
				var body []byte
				for _, v := range m.V[pos : pos+k] {
					body = binary.LittleEndian.AppendUint64(body, math.Float64bits(float64(v)))
				}
				p = c13PBBytes(p, 5, body)
			}
			pos += k
		}
		parts = append(parts, p)
	}
	if m.HasU && len(m.U) > 0 {
		var p []byte
		pos := 0
		for _, k := range chunks(len(m.U)) {
			if (unpackedU && !split) || (split && k == 1 && r.n(2) == 0) {
				for _, v := range m.U[pos : pos+k] {
					p = c13PBVarint(c13PBTag(p, 6, 0), uint64(v))
				}
			} else {
				var body []byte
				for _, v := range m.U[pos : pos+k] {
					body = c13PBVarint(body, uint64(v))
				}
				p = c13PBBytes(p, 6, body)
			}
			pos += k
		}
		parts = append(parts, p)
	}
	if m.HasH && len(m.H) > 0 {
		var p []byte
		for _, h := range m.H {
			var c []byte
			if float64(h[0]) != 0 || math.Signbit(float64(h[0])) || explicitZero {
				c = c13PBFixed64(c, 1, math.Float64bits(float64(h[0])))
			}
			if float64(h[1]) != 0 || math.Signbit(float64(h[1])) || explicitZero {
				c = c13PBFixed64(c, 2, math.Float64bits(float64(h[1])))
			}
			p = append(p, c13PBBytes(nil, 7, c)...)
		}
		parts = append(parts, p)
	}
	if st == 2 || mixed {
		for k := r.n(3); k > 0; k-- {
			parts = append(parts, c13PBUnknown(nil, r))
		}
		p := r.perm(len(parts))
		parts2 := make([][]byte, len(parts))
		for i, o := range p {
			parts2[i] = parts[o]
		}
		parts = parts2
	}
	return bytes.Join(parts, nil)
}

func c13EncProtobuf(b *c13Batch) []byte {
	r := &c13Rng{s: b.Enc.Seed ^ 0x7062}
	var w []byte
	for i := range b.Metrics {
		w = c13PBBytes(w, 13337, c13EncPBMetric(&b.Metrics[i], b.Enc.PB, r))
		if (b.Enc.PB == 2 || b.Enc.PB == 3) && r.n(4) == 0 {
			w = c13PBUnknown(w, r) // never first: the first bytes select the format
		}
	}
	return w
}

// ---------------------------------------------------------------- running the parser

type c13Rec struct {
	metrics  []c13Norm
	models   []c13Metric
	maskBad  string
	perr     [][]byte
	perrErrs []error
}

func (r *c13Rec) HandleMetrics(args data_model.HandlerArgs) {
	m := args.MetricBytes
	if len(r.metrics) > 1<<20 {
		panic("more than 2^20 metrics delivered from one packet of at most 64 KiB: runaway decoder loop")
	}
	r.metrics = append(r.metrics, c13NormOf(m))
	r.models = append(r.models, c13ModelOf(m))
	switch {
	case m.Counter != 0 && !m.IsSetCounter():
		r.maskBad = "counter"
	case m.Ts != 0 && !m.IsSetTs():
		r.maskBad = "ts"
	case len(m.Value) != 0 && !m.IsSetValue():
		r.maskBad = "value"
	case len(m.Unique) != 0 && !m.IsSetUnique():
		r.maskBad = "unique"
	case len(m.Histogram) != 0 && !m.IsSetHistogram():
		r.maskBad = "histogram"
	}
}

func (r *c13Rec) HandleParseError(pkt []byte, err error) {
	r.perr = append(r.perr, append([]byte{}, pkt...))
	r.perrErrs = append(r.perrErrs, err)
}

type c13Dec struct {
	p       parser
	batch   tlstatshouse.AddMetricsBatchBytes
	scratch []byte
}

func (d *c13Dec) run(pkt []byte) (*c13Rec, error) {
	rec := &c13Rec{}
	own := append([]byte{}, pkt...)
	err := d.p.parse(rec, nil, own, &d.batch, &d.scratch, "")
	if !bytes.Equal(own, pkt) {
		rec.maskBad = "input packet modified by parse"
	}
	return rec, err
}

const (
	c13FmtTL = iota
	c13FmtJSON
	c13FmtMsgpack
	c13FmtProtobuf
)

var c13FmtNames = []string{"tl", "json", "msgpack", "protobuf"}

func c13Encode(b *c13Batch, f int) []byte {
	switch f {
	case c13FmtTL:
		return c13EncTL(b, nil)
	case c13FmtJSON:
		return c13EncJSON(b)
	case c13FmtMsgpack:
		return c13EncMsgpack(b, nil)
	}
	return c13EncProtobuf(b)
}

func c13Expect(t vpT, what string, pkt []byte, got []c13Norm, want []c13Norm) {
	if len(got) != len(want) {
		t.Fatalf("%s: %d metrics delivered, want %d\npacket %x\ngot  %v\nwant %v", what, len(got), len(want), pkt, got, want)
	}
	for i := range want {
		if !c13NormEq(got[i], want[i]) {
			t.Fatalf("%s: metric %d differs\npacket %x\ngot  %v\nwant %v", what, i, pkt, got[i], want[i])
		}
	}
}

// ---------------------------------------------------------------- sub-check xformat

func c13PropXformat(t vpT, b c13Batch) (nontrivial bool, classes []string) {
	want := make([]c13Norm, len(b.Metrics))
	kinds := map[string]bool{}
	for i := range b.Metrics {
		m := &b.Metrics[i]
		want[i] = m.norm()
		if m.HasC {
			kinds["counter"] = true
		}
		if m.HasT {
			kinds["ts"] = true
		}
		if m.HasV && len(m.V) > 0 {
			kinds["value"] = true
		}
		if m.HasU && len(m.U) > 0 {
			kinds["unique"] = true
		}
		if m.HasH && len(m.H) > 0 {
			kinds["histogram"] = true
		}
		if len(m.Tags) > 0 {
			kinds["tags"] = true
		}
	}
	order := b.Enc.Order
	if len(order) == 0 {
		order = []int{0, 1, 2, 3}
	}
	jsonOK := c13JSONCapable(b.Metrics)
	if !jsonOK {
		classes = append(classes, "json-skipped-nonfinite")
	}
	dec := &c13Dec{}
	for _, f := range order {
		if f < 0 || f > 3 || (f == c13FmtJSON && !jsonOK) {
			continue
		}
		pkt := c13Encode(&b, f)
		what := "format " + c13FmtNames[f]
		// crash / hang canary first: a decoder that dies or spins must fail this case, not the whole run
		if _, _, problem := c13Canary(pkt); problem != "" {
			t.Fatalf("%s: %s\npacket %x", what, problem, pkt)
		}
		rec, err := dec.run(pkt)
		if err != nil || len(rec.perr) != 0 {
			t.Fatalf("%s: valid packet rejected: err=%v parseErrors=%d\npacket %x", what, err, len(rec.perr), pkt)
		}
		if rec.maskBad != "" {
			t.Fatalf("%s: inconsistent decode (%s)\npacket %x", what, rec.maskBad, pkt)
		}
		c13Expect(t, what, pkt, rec.metrics, want)
		if f == c13FmtProtobuf { // once more with a decoder that has never seen a packet: reused slices hide allocation mistakes
			recCold, errCold := (&c13Dec{}).run(pkt)
			if errCold != nil || len(recCold.perr) != 0 {
				t.Fatalf("%s (fresh decoder): valid packet rejected: %v\npacket %x", what, errCold, pkt)
			}
			c13Expect(t, what+" (fresh decoder)", pkt, recCold.metrics, want)
		}
		if len(pkt) > 0 && c13Detect(pkt) != c13FmtNames[f] {
			t.Fatalf("%s: harness encoder produced a packet whose documented prefix says %s: %x", what, c13Detect(pkt), pkt)
		}
	}
	for k := range kinds {
		classes = append(classes, "kind-"+k)
	}
	sort.Strings(classes)
	if len(b.Enc.Split) > 0 {
		classes = append(classes, "multi-batch-packet")
	}
	if b.Enc.PB == 4 {
		for i := range b.Metrics {
			if (b.Metrics[i].HasV && len(b.Metrics[i].V) >= 2) || (b.Metrics[i].HasU && len(b.Metrics[i].U) >= 2) {
				classes = append(classes, "pb-repeated-split")
				break
			}
		}
	}
	if b.Enc.PB == 1 || b.Enc.PB == 3 {
		classes = append(classes, "pb-unpacked")
	}
	if len(b.Metrics) == 0 {
		classes = append(classes, "empty-batch")
	}
	return len(kinds) >= 2, classes
}

var c13Floats = []float64{0, 1, -1, 0.5, 2.5, 100500.1, 1e-300, 5e-324, 1e300, math.MaxFloat32, -math.MaxFloat32, math.MaxFloat64,
	math.Copysign(0, -1), 1 << 53, 1<<53 + 2, 3.4028234663852886e+38, 1e21, 123456789.125, -7.25}
var c13Ints = []int64{0, 1, -1, 127, 128, -32, -33, 255, 256, 65535, 65536, -128, -129, -32768, -32769, math.MaxInt32, math.MinInt32,
	math.MaxInt32 + 1, math.MinInt32 - 1, math.MaxInt64, math.MinInt64, 591068825, 1 << 32, 1<<63 - 1}

func c13GenFloat(allowNonFinite bool) *rapid.Generator[vpF] {
	return rapid.Custom(func(t *rapid.T) vpF {
		switch rapid.IntRange(0, 9).Draw(t, "fk") {
		case 0, 1, 2:
			return vpF(rapid.SampledFrom(c13Floats).Draw(t, "f"))
		case 3, 4:
			return vpF(rapid.IntRange(-1000, 100000).Draw(t, "fi"))
		case 5:
			if allowNonFinite && rapid.IntRange(0, 3).Draw(t, "nonfinite") == 0 {
				return vpF(rapid.SampledFrom([]float64{math.NaN(), math.Inf(1), math.Inf(-1)}).Draw(t, "nf"))
			}
			return vpF(rapid.Float64Range(-10, 10).Draw(t, "ff"))
		case 6:
			return vpF(float64(rapid.Float32().Draw(t, "f32")))
		default:
			f := rapid.Float64().Draw(t, "f64")
			if !allowNonFinite && (math.IsNaN(f) || math.IsInf(f, 0)) {
				f = 0
			}
			return vpF(f)
		}
	})
}

var c13StrPieces = []string{"a", "Z", "0", "_", "-", ".", " ", "  ", "\t", "\n", "\"", "\\", "/", "\x00", "\x1f", "\x7f", "\u00e9", "\u0436", "\u20ac", "\u6f22", "\U0001f600",
	"\u00a0", "\ufeff", "\u2028", "9\x02XV", "{", "}", "[", ":", ","}

func c13GenStr(maxLen int, key bool) *rapid.Generator[string] {
	return rapid.Custom(func(t *rapid.T) string {
		switch rapid.IntRange(0, 7).Draw(t, "sk") {
		case 0:
			return ""
		case 1, 2, 3:
			if key {
				return rapid.SampledFrom([]string{"0", "1", "2", "15", "16", "47", "_s", "_h", "env", "key1", "skey", "platform", "дом", "a b"}).Draw(t, "key")
			}
			return rapid.StringMatching(`[a-zA-Z][a-zA-Z0-9_]{0,12}`).Draw(t, "ident")
		case 4: // long strings: TL medium string header at 254, msgpack str8/str16 at 32/256, protobuf 2-byte varint at 128
			n := rapid.SampledFrom([]int{31, 32, 127, 128, 253, 254, 255, 256, 257, 300, 1000}).Draw(t, "len")
			if n > maxLen {
				n = maxLen
			}
			return strings.Repeat("x", n)
		default:
			var sb strings.Builder
			for i := rapid.IntRange(1, 6).Draw(t, "np"); i > 0; i-- {
				p := rapid.SampledFrom(c13StrPieces).Draw(t, "piece")
				if key && (strings.ContainsAny(p, "\"\\") || p[0] < 0x20) {
					p = "k"
				}
				sb.WriteString(p)
			}
			return sb.String()
		}
	})
}

func c13GenMetric(allowNonFinite bool) *rapid.Generator[c13Metric] {
	return rapid.Custom(func(t *rapid.T) c13Metric {
		var m c13Metric
		m.Name = c13GenStr(1000, false).Draw(t, "name")
		nt := rapid.SampledFrom([]int{0, 0, 1, 2, 3, 5, 17}).Draw(t, "ntags")
		seen := map[string]bool{}
		for i := 0; i < nt; i++ {
			k := c13GenStr(300, true).Draw(t, "k")
			if seen[k] { // tags are a map: keys are unique
				continue
			}
			seen[k] = true
			m.Tags = append(m.Tags, c13Tag{K: k, V: c13GenStr(300, false).Draw(t, "v")})
		}
		mask := rapid.IntRange(0, 31).Draw(t, "fields")
		fl := c13GenFloat(allowNonFinite)
		if mask&1 != 0 {
			m.HasC, m.C = true, fl.Draw(t, "counter")
		}
		if mask&2 != 0 {
			m.HasT = true
			m.T = rapid.SampledFrom([]uint32{0, 1, 127, 128, 255, 256, 65535, 65536, 1670673392, math.MaxInt32, math.MaxInt32 + 1, math.MaxUint32}).Draw(t, "ts")
		}
		if mask&4 != 0 {
			m.HasV = true
			m.V = rapid.SliceOfN(fl, 0, 5).Draw(t, "values")
			if rapid.IntRange(0, 19).Draw(t, "manyv") == 0 {
				for i := 0; i < 17; i++ { // beyond fixarray
					m.V = append(m.V, vpF(i))
				}
			}
		}
		if mask&8 != 0 {
			m.HasU = true
			m.U = rapid.SliceOfN(rapid.OneOf(rapid.SampledFrom(c13Ints), rapid.Int64()), 0, 5).Draw(t, "uniques")
		}
		if mask&16 != 0 {
			m.HasH = true
			n := rapid.IntRange(0, 4).Draw(t, "nh")
			for i := 0; i < n; i++ {
				m.H = append(m.H, [2]vpF{fl.Draw(t, "hv"), fl.Draw(t, "hc")})
			}
		}
		return m
	})
}

func c13GenBatch(maxMetrics int, allowNonFinite bool) *rapid.Generator[c13Batch] {
	return rapid.Custom(func(t *rapid.T) c13Batch {
		var b c13Batch
		b.Metrics = rapid.SliceOfN(c13GenMetric(allowNonFinite), 0, maxMetrics).Draw(t, "metrics")
		b.Enc.Seed = rapid.Uint64().Draw(t, "seed")
		b.Enc.JS = rapid.IntRange(0, 2).Draw(t, "js")
		b.Enc.MP = rapid.IntRange(0, 2).Draw(t, "mp")
		b.Enc.PB = rapid.SampledFrom([]int{0, 4, 1, 2, 3, 4}).Draw(t, "pb")
		if len(b.Metrics) >= 2 && rapid.IntRange(0, 3).Draw(t, "dosplit") == 0 {
			left := len(b.Metrics)
			for left > 0 {
				s := rapid.IntRange(0, left).Draw(t, "chunk")
				b.Enc.Split = append(b.Enc.Split, s)
				left -= s
			}
		}
		b.Enc.Order = rapid.Permutation([]int{0, 1, 2, 3}).Draw(t, "order")
		return b
	})
}

func TestVerifC13Xformat(t *testing.T) {
	ev := vpNewEv(t, "C13", "xformat")
	rapid.Check(t, func(rt *rapid.T) {
		c := c13GenBatch(8, true).Draw(rt, "case")
		vpRunCase(rt, "C13", "xformat", c, func() {
			nt, cls := c13PropXformat(rt, c)
			ev.Case(nt, c, cls...)
		})
	})
}

// ---------------------------------------------------------------- documented format detection + reference dispatch

func c13Detect(p []byte) string {
	switch {
	case len(p) == 0:
		return "empty"
	case len(p) >= 4 && p[0] == 0x39 && p[1] == 0x02 && p[2] == 0x58 && p[3] == 0x56:
		return "tl"
	case p[0] == '{':
		return "json"
	case len(p) >= 2 && p[0] == 'S' && p[1] == 'H':
		return "legacy"
	case p[0]&0xf0 == 0x80:
		return "msgpack"
	case p[0] == 0xde:
		if len(p) >= 3 {
			return "msgpack"
		}
		return "truncated-map-header" // documented for neither decoder; both reject it
	case p[0] == 0xdf:
		if len(p) >= 5 {
			return "msgpack"
		}
		return "truncated-map-header"
	}
	return "protobuf"
}

type c13Outcome struct {
	metrics []c13Norm
	failed  bool
	failAt  []byte // the bytes that were being decoded when a batch failed (start of that batch)
}

// "run decoder F on the packet until it is consumed or a batch fails", with a fresh batch object
func c13Reference(format string, pkt []byte) c13Outcome {
	var out c13Outcome
	var b tlstatshouse.AddMetricsBatchBytes
	deliver := func() {
		for i := range b.Metrics {
			out.metrics = append(out.metrics, c13NormOf(&b.Metrics[i]))
		}
	}
	switch format {
	case "empty", "legacy":
	case "json":
		if err := b.UnmarshalJSON(pkt); err != nil {
			out.failed, out.failAt = true, pkt
			return out
		}
		deliver()
	default:
		rest := pkt
		for len(rest) > 0 {
			was := rest
			var err error
			switch format {
			case "tl":
				rest, err = b.ReadTL1Boxed(rest)
			case "msgpack":
				rest, err = msgpackUnmarshalStatshouseAddMetricBatch(&b, rest)
			default:
				rest, err = protobufUnmarshalStatshouseAddMetricBatch(&b, rest)
			}
			if err != nil {
				out.failed, out.failAt = true, was
				return out
			}
			if len(rest) >= len(was) {
				out.failed = true // decoder made no progress; parse would spin
				return out
			}
			deliver()
		}
	}
	return out
}

// oracle shared by the robust sub-check and the fuzz targets (in-process part)
func c13CheckPacket(t vpT, dec *c13Dec, pkt []byte, reencode bool) (classes []string, nontrivial bool) {
	format := c13Detect(pkt)
	rec, err := dec.run(pkt)
	classes = append(classes, "detect-"+format)
	if rec.maskBad != "" {
		t.Fatalf("inconsistent decode (%s)\npacket %x", rec.maskBad, pkt)
	}
	// the statement: either yields metrics or reports a parse error (empty / legacy packets are ignored by design)
	if (err != nil) != (len(rec.perr) > 0) {
		// protobuf branch hands the remainder (possibly empty) to the error report: documented quirk, not asserted
		if !(format == "protobuf" || format == "truncated-map-header") || (err == nil && len(rec.perr) > 0) {
			t.Fatalf("error reporting inconsistent: parse returned %v but HandleParseError was called %d times\npacket %x", err, len(rec.perr), pkt)
		}
	}
	if len(rec.perr) > 1 {
		t.Fatalf("HandleParseError called %d times for one packet %x", len(rec.perr), pkt)
	}
	var ref c13Outcome
	switch format {
	case "truncated-map-header":
		ref = c13Reference("protobuf", pkt)
		if !ref.failed || err == nil {
			t.Fatalf("truncated MessagePack map header accepted: %x", pkt)
		}
	default:
		ref = c13Reference(format, pkt)
	}
	if ref.failed != (err != nil) {
		t.Fatalf("format %s: parse returned err=%v but the %s decoder failed=%v\npacket %x", format, err, format, ref.failed, pkt)
	}
	c13Expect(t, "format "+format+" (parse vs the documented decoder run directly)", pkt, rec.metrics, ref.metrics)
	if err != nil && (format == "tl" || format == "json" || format == "msgpack") {
		if len(rec.perr) != 1 || !bytes.Equal(rec.perr[0], ref.failAt) {
			t.Fatalf("format %s: HandleParseError got %x, want the failing batch %x", format, rec.perr, ref.failAt)
		}
	}
	switch {
	case err != nil && len(rec.metrics) > 0:
		classes = append(classes, "outcome-metrics-then-error")
	case err != nil:
		classes = append(classes, "outcome-error")
	case len(rec.metrics) > 0:
		classes = append(classes, "outcome-metrics")
	case format == "empty" || format == "legacy":
		classes = append(classes, "outcome-ignored")
	default:
		classes = append(classes, "outcome-valid-empty")
	}
	nontrivial = format != "empty" && format != "legacy" && len(pkt) > 4
	if !reencode || err != nil || len(rec.models) == 0 || len(rec.models) > 64 {
		return classes, nontrivial
	}
	// whatever was accepted must survive every encoder/decoder pair
	valid := true
	for i := range rec.models {
		m := &rec.models[i]
		if !utf8.Valid(m.rawN) {
			valid = false
		}
		for _, tg := range m.raw {
			if !utf8.Valid(tg[0]) || !utf8.Valid(tg[1]) {
				valid = false
			}
		}
	}
	rb := c13Batch{Metrics: rec.models, Enc: c13Enc{Seed: vpHash(pkt), JS: int(vpHash(pkt) % 3), MP: int(vpHash(pkt) / 3 % 3), PB: int(vpHash(pkt) / 9 % 5)}}
	for f := 0; f < 4; f++ {
		if f != c13FmtTL && !valid { // the other three formats define strings as UTF-8
			continue
		}
		if f == c13FmtJSON && !c13JSONCapable(rb.Metrics) {
			continue
		}
		p2 := c13Encode(&rb, f)
		rec2, err2 := dec.run(p2)
		if err2 != nil || len(rec2.perr) > 0 {
			t.Fatalf("metrics accepted from %x do not decode after re-encoding as %s: %v\nre-encoded %x", pkt, c13FmtNames[f], err2, p2)
		}
		c13Expect(t, "re-encoded as "+c13FmtNames[f]+" (original packet "+fmt.Sprintf("%x", pkt)+")", p2, rec2.metrics, rec.metrics)
	}
	classes = append(classes, "reencoded")
	return classes, nontrivial
}

// ---------------------------------------------------------------- canary child process

const c13ChildEnv = "VERIF_C13_CHILD"
const c13ChildASLimit = 4 << 30

type c13Child struct {
	cmd    *exec.Cmd
	in     *os.File // parent writes packets
	out    *os.File // parent reads answers
	stderr *c13Tail
}

type c13Tail struct {
	mu sync.Mutex
	b  []byte
}

func (t *c13Tail) Write(p []byte) (int, error) {
	t.mu.Lock()
	if len(t.b) < 1500 { // the first lines name the fatal error; the goroutine dump that follows is noise
		t.b = append(t.b, p...)
		if len(t.b) > 1500 {
			t.b = t.b[:1500]
		}
	}
	t.mu.Unlock()
	return len(p), nil
}

func (t *c13Tail) head() string {
	t.mu.Lock()
	defer t.mu.Unlock()
	s := string(t.b)
	if i := strings.Index(s, "\n\n"); i > 0 {
		s = s[:i]
	}
	return s
}

var (
	c13ChildMu  sync.Mutex
	c13TheChild *c13Child
)

func c13StartChild() (*c13Child, error) {
	pr, cw, err := os.Pipe() // child reads pr
	if err != nil {
		return nil, err
	}
	cr, pw, err := os.Pipe() // child writes pw
	if err != nil {
		return nil, err
	}
	cmd := exec.Command(os.Args[0], "-test.run=^TestVerifC13Child$", "-test.timeout=0")
	cmd.Env = append(os.Environ(), c13ChildEnv+"=1", "VERIF_STATS_DIR=", "VERIF_FAIL_DIR=", "GOTRACEBACK=single")
	cmd.ExtraFiles = []*os.File{pr, pw}
	tail := &c13Tail{}
	cmd.Stderr = tail
	cmd.Stdout = tail
	if err := cmd.Start(); err != nil {
		return nil, err
	}
	pr.Close()
	pw.Close()
	return &c13Child{cmd: cmd, in: cw, out: cr, stderr: tail}, nil
}

func (c *c13Child) kill() {
	_ = c.cmd.Process.Kill()
	c.in.Close()
	c.out.Close()
	_ = c.cmd.Wait()
}

// returns (number of metrics delivered, error returned, problem). problem != "" means the decoder process died or hung.
func c13Canary(pkt []byte) (nMetrics int, failed bool, problem string) {
	return c13CanaryMsg(pkt, 0)
}

const c13ModeTCP = 0x80000000 // flag in the length word: the message is a chunk script + byte stream for receiveLoop

func c13CanaryMsg(pkt []byte, mode uint32) (nMetrics int, failed bool, problem string) {
	c13ChildMu.Lock()
	defer c13ChildMu.Unlock()
	if c13TheChild == nil {
		c, err := c13StartChild()
		if err != nil {
			return 0, false, "VP-INCONCLUSIVE cannot start canary child: " + err.Error()
		}
		c13TheChild = c
	}
	c := c13TheChild
	hdr := binary.LittleEndian.AppendUint32(nil, uint32(len(pkt))|mode)
	if _, err := c.in.Write(append(hdr, pkt...)); err != nil {
		c.kill()
		c13TheChild = nil
		return 0, false, "VP-INCONCLUSIVE canary child is gone before the packet was sent: " + err.Error() + "\n" + c.stderr.head()
	}
	type ans struct {
		b   [6]byte
		err error
	}
	ch := make(chan ans, 1)
	go func() {
		var a ans
		_, a.err = io.ReadFull(c.out, a.b[:])
		ch <- a
	}()
	// A hang is judged by the CPU time the child burns on the packet, not by wall time: on an overloaded machine a
	// starved child is slow, not hung.
	startCPU := c13ProcCPU(c.cmd.Process.Pid)
	startWall := time.Now()
	for {
		select {
		case a := <-ch:
			if a.err != nil {
				_ = c.cmd.Wait()
				state := c.cmd.ProcessState.String()
				c.in.Close()
				c.out.Close()
				c13TheChild = nil
				return 0, false, "decoder process died (" + state + "): " + c.stderr.head()
			}
			if a.b[0] == 2 {
				c.kill()
				c13TheChild = nil
				return 0, false, "decoder panicked: " + c.stderr.head()
			}
			if a.b[0] == 3 {
				return 0, false, "receive loop spins: it keeps reading into an empty buffer and never returns (hang)"
			}
			return int(binary.LittleEndian.Uint32(a.b[1:5])), a.b[5] != 0, ""
		case <-time.After(2 * time.Second):
		}
		used := c13ProcCPU(c.cmd.Process.Pid) - startCPU
		if used >= 10*time.Second {
			c.kill()
			c13TheChild = nil
			<-ch
			return 0, false, fmt.Sprintf("decoder did not return after %v of CPU time (hang)", used)
		}
		if time.Since(startWall) > 5*time.Minute {
			c.kill()
			c13TheChild = nil
			<-ch
			return 0, false, fmt.Sprintf("VP-INCONCLUSIVE canary child got only %v of CPU in %v (machine overloaded?)", used, time.Since(startWall))
		}
	}
}

// CPU time (user+system) consumed so far by process pid, from /proc
func c13ProcCPU(pid int) time.Duration {
	b, err := os.ReadFile("/proc/" + strconv.Itoa(pid) + "/stat")
	if err != nil {
		return 0
	}
	s := string(b)
	if i := strings.LastIndexByte(s, ')'); i >= 0 { // the command name may contain spaces
		s = s[i+1:]
	}
	f := strings.Fields(s) // f[0] is the state (field 3); utime, stime are fields 14, 15
	if len(f) < 13 {
		return 0
	}
	ut, _ := strconv.ParseInt(f[11], 10, 64)
	st, _ := strconv.ParseInt(f[12], 10, 64)
	return time.Duration(ut+st) * (time.Second / 100) // USER_HZ is 100 on Linux
}

type c13Count struct {
	n int
	e int
}

func (c *c13Count) HandleMetrics(args data_model.HandlerArgs) { c.n++ }
func (c *c13Count) HandleParseError(pkt []byte, err error)    { c.e++ }

// TestVerifC13Child is the canary: it only decodes what the parent sends. Not a check by itself.
func TestVerifC13Child(t *testing.T) {
	if os.Getenv(c13ChildEnv) == "" {
		t.Skip("canary child role only")
	}
	lim := syscall.Rlimit{Cur: c13ChildASLimit, Max: c13ChildASLimit}
	var cur syscall.Rlimit
	if syscall.Getrlimit(syscall.RLIMIT_AS, &cur) == nil && cur.Max != ^uint64(0) && cur.Max < lim.Max {
		lim.Max = cur.Max
		if lim.Cur > lim.Max {
			lim.Cur = lim.Max
		}
	}
	_ = syscall.Setrlimit(syscall.RLIMIT_AS, &lim)
	in := os.NewFile(3, "in")
	out := os.NewFile(4, "out")
	var p parser
	var batch tlstatshouse.AddMetricsBatchBytes
	var scratch []byte
	buf := make([]byte, 0, 1<<16)
	for {
		var hdr [4]byte
		if _, err := io.ReadFull(in, hdr[:]); err != nil {
			return // parent is gone
		}
		n := binary.LittleEndian.Uint32(hdr[:])
		tcpMode := n&c13ModeTCP != 0
		n &^= c13ModeTCP
		if int(n) > cap(buf) {
			buf = make([]byte, 0, n)
		}
		pkt := buf[:n]
		if _, err := io.ReadFull(in, pkt); err != nil {
			return
		}
		var cnt c13Count
		var ans [6]byte
		func() {
			defer func() {
				if r := recover(); r != nil {
					fmt.Fprintf(os.Stderr, "panic: %v\n", r)
					ans[0] = 2
				}
			}()
			if tcpMode {
				chunks, stream := c13UnpackStream(pkt)
				conn := &c13Conn{stream: stream, chunks: chunks}
				err := c13RunLoop(conn, &cnt)
				if conn.spun {
					ans[0] = 3
				}
				if err != nil {
					ans[5] = 1
				}
				return
			}
			err := p.parse(&cnt, nil, pkt, &batch, &scratch, "")
			if err != nil {
				ans[5] = 1
			}
		}()
		binary.LittleEndian.PutUint32(ans[1:5], uint32(cnt.n))
		if _, err := out.Write(ans[:]); err != nil {
			return
		}
	}
}

// ---------------------------------------------------------------- sub-check robust

type c13Pkt struct {
	Pkt  []byte `json:"pkt"`
	Kind string `json:"kind"`
}

// a decoder whose reused batch object already holds the leftovers of a previous packet, like a live receiver
func c13PrimedDec() *c13Dec {
	c13PrimerOnce.Do(func() {
		b := c13Batch{Metrics: []c13Metric{
			{Name: "stale_one", Tags: []c13Tag{{"env", "stale"}, {"1", "stale1"}, {"2", "stale2"}}, HasC: true, C: 77, HasT: true, T: 77, HasV: true, V: []vpF{7, 77, 777}},
			{Name: "stale_two", Tags: []c13Tag{{"3", "stale3"}}, HasU: true, U: []int64{7, 77, 777, 7777}, HasC: true, C: 7},
			{Name: "stale_three", HasH: true, H: [][2]vpF{{7, 7}, {77, 77}}},
		}}
		c13Primer = c13EncTL(&b, nil)
	})
	d := &c13Dec{}
	_ = d.p.parse(&c13Count{}, nil, c13Primer, &d.batch, &d.scratch, "")
	return d
}

var (
	c13PrimerOnce sync.Once
	c13Primer     []byte
)

func c13PropRobust(t vpT, c c13Pkt, canary bool) (nontrivial bool, classes []string) {
	nChild, failedChild := 0, false
	if canary {
		var problem string
		nChild, failedChild, problem = c13Canary(c.Pkt)
		if problem != "" {
			t.Fatalf("%s\npacket (%d bytes) %x", problem, len(c.Pkt), c.Pkt)
		}
	}
	dec := c13PrimedDec()
	cls, nt := c13CheckPacket(t, dec, c.Pkt, true)
	if canary {
		rec, err := dec.run(c.Pkt)
		if len(rec.metrics) != nChild || (err != nil) != failedChild {
			t.Fatalf("decoding is not deterministic: canary delivered %d metrics (failed=%v), in-process %d (err=%v)\npacket %x", nChild, failedChild, len(rec.metrics), err, c.Pkt)
		}
	}
	cls = append(cls, "kind-"+c.Kind)
	return nt, cls
}

var c13Prefixes = [][]byte{
	{'{'}, {'{', '"'}, []byte(`{"metrics":[`), {'S', 'H'}, {'S'}, {'H', 'S'}, {0x39, 0x02, 0x58, 0x56}, {0x39, 0x02, 0x58}, {0x39},
	{0x80}, {0x81}, {0x8f}, {0xde}, {0xde, 0}, {0xde, 0, 1}, {0xdf}, {0xdf, 0, 0, 0}, {0xdf, 0, 0, 0, 1}, {0xdc, 0, 1}, {0x90}, {0xca, 0xc1, 0x06},
	{0x0a}, {0xff}, {0x00}, {0x7b, 0x7d}, {0x81, 0xa7, 'm', 'e', 't', 'r', 'i', 'c', 's'},
}

func c13GenPkt() *rapid.Generator[c13Pkt] {
	return rapid.Custom(func(t *rapid.T) c13Pkt {
		kind := rapid.SampledFrom([]string{"random", "prefixed", "valid", "mutated", "mutated", "mutated", "inflated", "inflated", "concat"}).Draw(t, "kind")
		switch kind {
		case "random":
			return c13Pkt{Pkt: rapid.SliceOfN(rapid.Byte(), 0, 64).Draw(t, "raw"), Kind: kind}
		case "prefixed":
			p := append([]byte{}, rapid.SampledFrom(c13Prefixes).Draw(t, "prefix")...)
			return c13Pkt{Pkt: append(p, rapid.SliceOfN(rapid.Byte(), 0, 40).Draw(t, "tail")...), Kind: kind}
		}
		b := c13GenBatch(3, true).Draw(t, "batch")
		f := rapid.IntRange(0, 3).Draw(t, "format")
		if f == c13FmtJSON && !c13JSONCapable(b.Metrics) {
			f = c13FmtMsgpack
		}
		switch kind {
		case "valid":
			return c13Pkt{Pkt: c13Encode(&b, f), Kind: kind}
		case "concat":
			b2 := c13GenBatch(2, true).Draw(t, "batch2")
			f2 := rapid.IntRange(0, 3).Draw(t, "format2")
			if f2 == c13FmtJSON && !c13JSONCapable(b2.Metrics) {
				f2 = c13FmtTL
			}
			return c13Pkt{Pkt: append(c13Encode(&b, f), c13Encode(&b2, f2)...), Kind: kind}
		case "inflated":
			// a collection header announcing more elements than the packet can hold
			if f == c13FmtJSON || f == c13FmtProtobuf {
				f = rapid.SampledFrom([]int{c13FmtTL, c13FmtMsgpack}).Draw(t, "format-inf")
			}
			probe := &c13Inflate{at: -1}
			if f == c13FmtTL {
				c13EncTL(&b, probe)
			} else {
				c13EncMsgpack(&b, probe)
			}
			inf := &c13Inflate{at: rapid.IntRange(0, probe.seen-1).Draw(t, "hdr")} // at least the metrics array header exists
			inf.to = rapid.SampledFrom([]uint32{17, 255, 65536, 1 << 24, 1<<31 - 1, 1 << 31, math.MaxUint32}).Draw(t, "count")
			var p []byte
			if f == c13FmtTL {
				p = c13EncTL(&b, inf)
			} else {
				p = c13EncMsgpack(&b, inf)
			}
			if rapid.IntRange(0, 2).Draw(t, "cut") == 0 && len(p) > 0 {
				p = p[:rapid.IntRange(0, len(p)).Draw(t, "cutat")]
			}
			k := kind
			if !inf.hit {
				k = "valid"
			}
			return c13Pkt{Pkt: p, Kind: k}
		}
		p := c13Encode(&b, f)
		for i := rapid.IntRange(1, 4).Draw(t, "nmut"); i > 0 && len(p) > 0; i-- {
			pos := rapid.IntRange(0, len(p)-1).Draw(t, "pos")
			switch rapid.IntRange(0, 7).Draw(t, "mut") {
			case 0:
				p[pos] ^= 1 << rapid.IntRange(0, 7).Draw(t, "bit")
			case 1:
				p[pos] = rapid.SampledFrom([]byte{0, 1, 0x7f, 0x80, 0xff, 0xdd, 0xdf, 0xdb, 0xc1, 0xfe, '{', '"', '\\', ']'}).Draw(t, "val")
			case 2:
				p = p[:pos]
			case 3:
				end := pos + rapid.IntRange(1, 8).Draw(t, "dlen")
				if end > len(p) {
					end = len(p)
				}
				p = append(p[:pos:pos], p[end:]...)
			case 4:
				ins := rapid.SliceOfN(rapid.Byte(), 1, 6).Draw(t, "ins")
				p = append(p[:pos:pos], append(ins, p[pos:]...)...)
			case 5:
				end := pos + rapid.IntRange(1, 16).Draw(t, "dup")
				if end > len(p) {
					end = len(p)
				}
				p = append(p[:end:end], p[pos:]...)
			case 6:
				p[pos] = rapid.Byte().Draw(t, "byte")
			default: // overwrite 4 bytes with a large big- or little-endian count
				v := rapid.SampledFrom([]uint32{0xffffffff, 0x7fffffff, 0x80000000, 0x00ffffff, 0x10000}).Draw(t, "u32")
				var q [4]byte
				if rapid.Bool().Draw(t, "be") {
					binary.BigEndian.PutUint32(q[:], v)
				} else {
					binary.LittleEndian.PutUint32(q[:], v)
				}
				for j := 0; j < 4 && pos+j < len(p); j++ {
					p[pos+j] = q[j]
				}
			}
		}
		return c13Pkt{Pkt: p, Kind: kind}
	})
}

func TestVerifC13Robust(t *testing.T) {
	ev := vpNewEv(t, "C13", "robust")
	rapid.Check(t, func(rt *rapid.T) {
		c := c13GenPkt().Draw(rt, "case")
		vpRunCase(rt, "C13", "robust", c, func() {
			nt, cls := c13PropRobust(rt, c, true)
			ev.Case(nt, c, cls...)
		})
	})
}

// ---------------------------------------------------------------- sub-check tcpstream: the real (*TCP).receiveLoop

const c13TCPBuf = 4 + 65535 // receive buffer of receiveLoop: one header + the largest frame body

// c13Conn is a scripted net.Conn: it hands the stream to the reader in the generated write sizes (never more than the
// reader asks for). A reader that keeps asking for zero bytes is spinning; the script breaks the spin and records it.
type c13Conn struct {
	stream    []byte
	pos       int
	chunks    []int
	ci, left  int
	zeroReads int
	spun      bool
	minRoom   int
	reads     int
}

var errC13Spin = fmt.Errorf("c13: reader spins on zero-length reads")

func (c *c13Conn) Read(p []byte) (int, error) {
	c.reads++
	if len(p) == 0 {
		c.zeroReads++
		if c.zeroReads > 100 {
			c.spun = true
			return 0, errC13Spin
		}
		return 0, nil
	}
	c.zeroReads = 0
	if c.reads == 1 || len(p) < c.minRoom {
		c.minRoom = len(p)
	}
	if c.pos >= len(c.stream) {
		return 0, io.EOF
	}
	if c.left <= 0 {
		if c.ci < len(c.chunks) {
			c.left = c.chunks[c.ci]
			c.ci++
			if c.left < 1 {
				c.left = 1
			}
		} else {
			c.left = len(c.stream) - c.pos
		}
	}
	n := len(p)
	if n > c.left {
		n = c.left
	}
	if n > len(c.stream)-c.pos {
		n = len(c.stream) - c.pos
	}
	copy(p, c.stream[c.pos:c.pos+n])
	c.pos += n
	c.left -= n
	return n, nil
}
func (c *c13Conn) Write(p []byte) (int, error)        { return len(p), nil }
func (c *c13Conn) Close() error                       { return nil }
func (c *c13Conn) LocalAddr() net.Addr                { return &net.TCPAddr{} }
func (c *c13Conn) RemoteAddr() net.Addr               { return &net.TCPAddr{} }
func (c *c13Conn) SetDeadline(t time.Time) error      { return nil }
func (c *c13Conn) SetReadDeadline(t time.Time) error  { return nil }
func (c *c13Conn) SetWriteDeadline(t time.Time) error { return nil }

func c13RunLoop(conn *c13Conn, h Handler) error {
	s := newStreamReceiver(nil, nil, "tcp", true)
	return s.receiveLoop(nil, h, &serverConn{conn: conn}, "")
}

func c13PackStream(chunks []int, stream []byte) []byte {
	w := binary.LittleEndian.AppendUint32(nil, uint32(len(chunks)))
	for _, c := range chunks {
		w = binary.LittleEndian.AppendUint32(w, uint32(c))
	}
	return append(w, stream...)
}

func c13UnpackStream(b []byte) (chunks []int, stream []byte) {
	if len(b) < 4 {
		return nil, nil
	}
	n := int(binary.LittleEndian.Uint32(b))
	b = b[4:]
	for i := 0; i < n && len(b) >= 4; i++ {
		chunks = append(chunks, int(binary.LittleEndian.Uint32(b)))
		b = b[4:]
	}
	return chunks, b
}

type c13Frame struct {
	Kind  string    `json:"kind"`            // batch | jsonpad | legacy | garbage | empty | oversize
	Fmt   int       `json:"fmt,omitempty"`   // batch: wire format
	Batch *c13Batch `json:"batch,omitempty"` // batch, jsonpad
	Len   int       `json:"len,omitempty"`   // jsonpad, legacy, garbage: body length; oversize: announced length - 65536
}

type c13Stream struct {
	Frames []c13Frame `json:"frames"`
	Chunks []int      `json:"chunks"`        // write sizes; the rest of the stream goes out in one last write
	Cut    int        `json:"cut,omitempty"` // the connection ends this many bytes before the end of the last frame
}

func (f *c13Frame) body() []byte {
	switch f.Kind {
	case "batch":
		if f.Batch == nil {
			return nil
		}
		fm := f.Fmt
		if fm == c13FmtJSON && !c13JSONCapable(f.Batch.Metrics) {
			fm = c13FmtTL
		}
		return c13Encode(f.Batch, fm)
	case "jsonpad": // a JSON batch followed by white space up to the wanted length
		b := c13Batch{}
		if f.Batch != nil && c13JSONCapable(f.Batch.Metrics) {
			b = *f.Batch
		}
		b.Enc.JS = 0
		p := c13EncJSON(&b)
		for len(p) < f.Len {
			p = append(p, ' ')
		}
		return p
	case "legacy":
		p := []byte("SH")
		for len(p) < f.Len {
			p = append(p, 'x')
		}
		return p
	case "garbage":
		r := &c13Rng{s: uint64(f.Len)*31 + 7}
		p := make([]byte, f.Len)
		for i := range p {
			p[i] = byte(r.next())
		}
		if len(p) > 0 {
			p[0] = 0xff // neither of the documented prefixes: handled (and rejected) by the protobuf decoder
		}
		return p
	}
	return nil
}

// the byte stream, the end offset of every frame in it, and the offset of the first oversize header (-1: none)
func (c *c13Stream) build() (stream []byte, ends []int, starts []int, bodies [][]byte, oversizeAt int) {
	oversizeAt = -1
	for i := range c.Frames {
		f := &c.Frames[i]
		starts = append(starts, len(stream))
		if f.Kind == "oversize" {
			if oversizeAt < 0 {
				oversizeAt = len(stream)
			}
			l := uint32(65536 + f.Len)
			if f.Len < 0 || f.Len > 1<<20 {
				l = math.MaxUint32
			}
			stream = binary.LittleEndian.AppendUint32(stream, l)
			ends = append(ends, len(stream))
			bodies = append(bodies, nil)
			continue
		}
		b := f.body()
		if len(b) > 65535 {
			b = b[:65535]
		}
		stream = binary.LittleEndian.AppendUint32(stream, uint32(len(b)))
		stream = append(stream, b...)
		ends = append(ends, len(stream))
		bodies = append(bodies, b)
	}
	if c.Cut > 0 {
		cut := c.Cut
		if cut > len(stream) {
			cut = len(stream)
		}
		stream = stream[:len(stream)-cut]
	}
	return
}

func c13PropTCP(t vpT, c c13Stream, canary bool) (nontrivial bool, classes []string) {
	stream, ends, starts, bodies, oversizeAt := c.build()
	// what the frames mean: every complete frame before a framing error, decoded on its own by the (separately
	// checked) parse path
	var want []c13Norm
	wantErr := false
	complete := 0
	for i := range c.Frames {
		if c.Frames[i].Kind == "oversize" {
			if starts[i]+4 <= len(stream) {
				wantErr = true // the length word is readable: framing error ends the connection
			}
			break
		}
		if ends[i] > len(stream) {
			break // cut off by the end of the connection
		}
		rec, _ := (&c13Dec{}).run(bodies[i])
		want = append(want, rec.metrics...)
		complete++
	}
	_ = oversizeAt
	alt := []int{c13TCPBuf} // metamorphic twin: the same stream read in buffer-sized gulps
	if len(c.Chunks) == 1 && c.Chunks[0] == c13TCPBuf {
		alt = []int{4096}
	}
	for pass, chunks := range [][]int{c.Chunks, alt} {
		what := fmt.Sprintf("tcp stream of %d bytes, %d frames (%d complete), chunking %d", len(stream), len(c.Frames), complete, pass)
		if canary && pass == 0 {
			n, failed, problem := c13CanaryMsg(c13PackStream(chunks, stream), c13ModeTCP)
			if problem != "" {
				t.Fatalf("%s: %s", what, problem)
			}
			if n != len(want) || failed != wantErr {
				t.Fatalf("%s: canary delivered %d metrics (error=%v), want %d (error=%v)", what, n, failed, len(want), wantErr)
			}
		}
		conn := &c13Conn{stream: stream, chunks: chunks}
		rec := &c13Rec{}
		err := c13RunLoop(conn, rec)
		if conn.spun {
			t.Fatalf("%s: receive loop spins: it keeps reading into an empty buffer (buffer full, nothing consumed) and never returns", what)
		}
		if (err != nil) != wantErr {
			t.Fatalf("%s: receiveLoop returned %v, framing error expected: %v", what, err, wantErr)
		}
		if rec.maskBad != "" {
			t.Fatalf("%s: inconsistent decode (%s)", what, rec.maskBad)
		}
		if !wantErr && conn.pos != len(stream) {
			t.Fatalf("%s: loop ended after %d of %d stream bytes", what, conn.pos, len(stream))
		}
		if len(rec.metrics) != len(want) {
			t.Fatalf("%s: %d metrics delivered, want %d (the frames decoded one by one)", what, len(rec.metrics), len(want))
		}
		for i := range want {
			if !c13NormEq(rec.metrics[i], want[i]) {
				t.Fatalf("%s: metric %d differs\ngot  %v\nwant %v", what, i, rec.metrics[i], want[i])
			}
		}
		if pass == 0 && conn.minRoom <= 3 {
			classes = append(classes, "read-with-buffer-almost-full")
		}
	}
	// classes
	for _, e := range ends {
		if e >= c13TCPBuf-3 && e <= c13TCPBuf+3 && e <= len(stream) {
			classes = append(classes, "frame-boundary-within-3-of-buffer-end")
			break
		}
	}
	pos, straddle, aligned := 0, false, 0
	isStart := map[int]bool{}
	for _, s := range starts {
		isStart[s] = true
	}
	for _, ch := range c.Chunks {
		if ch < 1 {
			ch = 1
		}
		pos += ch
		if pos >= len(stream) {
			break
		}
		if isStart[pos] {
			aligned++
		}
		for d := 1; d <= 3; d++ {
			if isStart[pos-d] {
				straddle = true
			}
		}
	}
	if straddle {
		classes = append(classes, "header-straddles-reads")
	}
	if aligned > 0 {
		classes = append(classes, "write-ends-on-frame-boundary")
	}
	if wantErr {
		classes = append(classes, "framing-error")
	}
	if c.Cut > 0 {
		classes = append(classes, "connection-cut-mid-frame")
	}
	if len(stream) > c13TCPBuf {
		classes = append(classes, "stream-longer-than-buffer")
	}
	if len(want) > 0 {
		classes = append(classes, "stream-yields-metrics")
	}
	return len(c.Frames) >= 2 && len(want) > 0, classes
}

func c13GenStream() *rapid.Generator[c13Stream] {
	small := c13GenBatch(2, false)
	return rapid.Custom(func(t *rapid.T) c13Stream {
		var c c13Stream
		frame := func(label string) c13Frame {
			switch rapid.SampledFrom([]string{"batch", "batch", "batch", "empty", "garbage", "legacy", "batch"}).Draw(t, label) {
			case "empty":
				return c13Frame{Kind: "empty"}
			case "garbage":
				return c13Frame{Kind: "garbage", Len: rapid.IntRange(1, 40).Draw(t, "glen")}
			case "legacy":
				return c13Frame{Kind: "legacy", Len: rapid.IntRange(2, 40).Draw(t, "llen")}
			}
			b := small.Draw(t, "batch")
			b.Enc.Split, b.Enc.Order = nil, nil
			return c13Frame{Kind: "batch", Fmt: rapid.IntRange(0, 3).Draw(t, "fmt"), Batch: &b}
		}
		shape := rapid.SampledFrom([]string{"edge", "edge", "small", "edge", "big", "edge"}).Draw(t, "shape")
		for i := rapid.IntRange(1, 6).Draw(t, "nhead"); i > 0; i-- {
			c.Frames = append(c.Frames, frame("head"))
		}
		filler := func(bodyLen int) {
			if bodyLen < 2 {
				bodyLen = 2
			}
			kind := rapid.SampledFrom([]string{"legacy", "jsonpad", "garbage"}).Draw(t, "filler")
			f := c13Frame{Kind: kind, Len: bodyLen}
			if kind == "jsonpad" {
				b := small.Draw(t, "padbatch")
				b.Enc.Split, b.Enc.Order = nil, nil
				f.Batch = &b
			}
			c.Frames = append(c.Frames, f)
		}
		switch shape {
		case "edge": // a frame boundary at buffer size -3..+3 (or at a multiple of it)
			_, ends, _, _, _ := c.build()
			at := ends[len(ends)-1]
			target := c13TCPBuf*rapid.SampledFrom([]int{1, 1, 1, 2}).Draw(t, "mult") + rapid.IntRange(-3, 3).Draw(t, "delta")
			for target-at-4 > 65535 {
				l := rapid.IntRange(20000, 60000).Draw(t, "prefill")
				filler(l)
				at += 4 + l
			}
			if target-at-4 >= 2 {
				filler(target - at - 4)
			}
		case "big":
			for i := rapid.IntRange(1, 3).Draw(t, "nbig"); i > 0; i-- {
				filler(rapid.SampledFrom([]int{65535, 65534, 65531, 65500, 40000, 32768, 65535}).Draw(t, "biglen"))
			}
		}
		for i := rapid.IntRange(1, 5).Draw(t, "ntail"); i > 0; i-- {
			c.Frames = append(c.Frames, frame("tail"))
		}
		if rapid.IntRange(0, 11).Draw(t, "oversize") == 5 {
			c.Frames = append(c.Frames, c13Frame{Kind: "oversize", Len: rapid.SampledFrom([]int{0, 1, 1000, -1}).Draw(t, "olen")})
			c.Frames = append(c.Frames, frame("after"))
		}
		if rapid.IntRange(0, 7).Draw(t, "docut") == 3 {
			c.Cut = rapid.IntRange(1, 9).Draw(t, "cut")
		}
		stream, _, starts, _, _ := c.build()
		switch rapid.SampledFrom([]string{"all", "frames", "straddle", "random", "big", "ones", "straddle", "frames"}).Draw(t, "chunking") {
		case "all":
			c.Chunks = []int{len(stream) + 1}
		case "big":
			c.Chunks = []int{rapid.SampledFrom([]int{c13TCPBuf, c13TCPBuf - 1, c13TCPBuf + 1, 65536, 32768, 100000}).Draw(t, "bigsz")}
			for n := c.Chunks[0]; n < len(stream); n += c.Chunks[0] {
				c.Chunks = append(c.Chunks, c.Chunks[0])
			}
		case "ones":
			if len(stream) <= 3000 {
				for i := 0; i < len(stream); i++ {
					c.Chunks = append(c.Chunks, 1)
				}
			} else { // one byte at a time around the buffer end, gulps elsewhere
				c.Chunks = append(c.Chunks, c13TCPBuf-40)
				for i := 0; i < 90; i++ {
					c.Chunks = append(c.Chunks, 1)
				}
			}
		case "frames", "straddle": // every write ends on a frame boundary, or 1..3 bytes into the next header
			pos := 0
			for _, s := range starts[1:] {
				cutAt := s
				if rapid.IntRange(0, 3).Draw(t, "skip") == 0 {
					continue
				}
				if rapid.Bool().Draw(t, "into-header") {
					cutAt = s + rapid.IntRange(1, 3).Draw(t, "hdrbytes")
				}
				if cutAt > pos && cutAt < len(stream) {
					c.Chunks = append(c.Chunks, cutAt-pos)
					pos = cutAt
				}
			}
		default:
			for pos := 0; pos < len(stream); {
				n := rapid.SampledFrom([]int{1, 2, 3, 4, 5, 7, 100, 1000, 4096, 20000, 65535, 65539}).Draw(t, "sz")
				c.Chunks = append(c.Chunks, n)
				pos += n
			}
		}
		return c
	})
}

func TestVerifC13Tcpstream(t *testing.T) {
	ev := vpNewEv(t, "C13", "tcpstream")
	rapid.Check(t, func(rt *rapid.T) {
		c := c13GenStream().Draw(rt, "case")
		vpRunCase(rt, "C13", "tcpstream", c, func() {
			nt, cls := c13PropTCP(rt, c, true)
			ev.Case(nt, c, cls...)
		})
	})
}

// ---------------------------------------------------------------- native fuzz targets (thorough tier)

var (
	c13FuzzWatch   sync.Once
	c13FuzzStarted atomic.Int64 // unix nanoseconds of the running execution, 0 when idle
	c13FuzzInput   atomic.Pointer[[]byte]
)

func c13FuzzOne(t *testing.T, data []byte) {
	if len(data) > 1<<16 {
		return // larger than any UDP packet
	}
	c13FuzzWatch.Do(func() { // one watchdog per worker process: a decoder that does not return is a failure, not a stuck campaign
		go func() {
			cpu0 := c13ProcCPU(os.Getpid())
			for {
				time.Sleep(time.Second)
				st := c13FuzzStarted.Load()
				if st == 0 {
					cpu0 = c13ProcCPU(os.Getpid())
					continue
				}
				// CPU time, not wall time: a starved worker is slow, not hung (cpu0 is refreshed whenever the worker is idle;
				// an execution is orders of magnitude shorter than the polling interval)
				if time.Since(time.Unix(0, st)) > 20*time.Second && c13ProcCPU(os.Getpid())-cpu0 > 20*time.Second {
					if p := c13FuzzInput.Load(); p != nil {
						fmt.Fprintf(os.Stderr, "C13 fuzz: decoder hangs on %x\n", *p)
					}
					os.Exit(3)
				}
			}
		}()
	})
	c13FuzzInput.Store(&data)
	c13FuzzStarted.Store(time.Now().UnixNano())
	defer c13FuzzStarted.Store(0)
	c13CheckPacket(t, c13PrimedDec(), data, true)
}

func c13FuzzSeeds(f *testing.F, format int) {
	r := &c13Rng{s: 13}
	mk := func(i int) c13Batch {
		b := c13Batch{Enc: c13Enc{Seed: r.next(), JS: i % 3, MP: i % 3, PB: i % 5}}
		for j := 0; j <= i%3; j++ {
			m := c13Metric{Name: "metric" + strconv.Itoa(j), Tags: []c13Tag{{"env", "production"}, {"1", "v"}}}
			if (i+j)%2 == 0 {
				m.HasC, m.C = true, 100500.1
			}
			if i%3 == 0 {
				m.HasT, m.T = true, 1670673392
			}
			switch (i + j) % 4 {
			case 0:
				m.HasV, m.V = true, []vpF{0.7, 1, 2}
			case 1:
				m.HasU, m.U = true, []int64{591068825, -1, 1 << 40}
			case 2:
				m.HasH, m.H = true, [][2]vpF{{1.5, 2}, {3, 4}}
			}
			b.Metrics = append(b.Metrics, m)
		}
		return b
	}
	for i := 0; i < 8; i++ {
		b := mk(i)
		f.Add(c13Encode(&b, format))
	}
}

func FuzzVerifC13Any(f *testing.F) {
	for fm := 0; fm < 4; fm++ {
		c13FuzzSeeds(f, fm)
	}
	f.Add([]byte("SHlegacy"))
	f.Add([]byte{})
	f.Fuzz(func(t *testing.T, data []byte) { c13FuzzOne(t, data) })
}

func FuzzVerifC13TL(f *testing.F) {
	c13FuzzSeeds(f, c13FmtTL)
	f.Fuzz(func(t *testing.T, data []byte) {
		if c13Detect(data) != "tl" {
			data = append([]byte{0x39, 0x02, 0x58, 0x56}, data...)
		}
		c13FuzzOne(t, data)
	})
}

func FuzzVerifC13JSON(f *testing.F) {
	c13FuzzSeeds(f, c13FmtJSON)
	f.Fuzz(func(t *testing.T, data []byte) {
		if c13Detect(data) != "json" {
			data = append([]byte{'{'}, data...)
		}
		c13FuzzOne(t, data)
	})
}

func FuzzVerifC13Msgpack(f *testing.F) {
	c13FuzzSeeds(f, c13FmtMsgpack)
	f.Fuzz(func(t *testing.T, data []byte) {
		if c13Detect(data) != "msgpack" {
			data = append([]byte{0x81}, data...)
		}
		c13FuzzOne(t, data)
	})
}

func FuzzVerifC13Protobuf(f *testing.F) {
	c13FuzzSeeds(f, c13FmtProtobuf)
	f.Fuzz(func(t *testing.T, data []byte) {
		if d := c13Detect(data); d != "protobuf" && d != "empty" {
			data = append([]byte{0xca, 0xc1, 0x06}, data...)
		}
		c13FuzzOne(t, data)
	})
}

// TestVerifC13WriteCorpus regenerates the committed seed corpus (/verif/corpus/C13/<FuzzName>/) from the harness
// encoders; it only runs when VERIF_C13_WRITE_CORPUS names the target directory (never part of a check run).
func TestVerifC13WriteCorpus(t *testing.T) {
	dir := os.Getenv("VERIF_C13_WRITE_CORPUS")
	if dir == "" {
		t.Skip("corpus writer")
	}
	write := func(fuzzName, name string, data []byte) {
		d := dir + "/" + fuzzName
		if err := os.MkdirAll(d, 0o755); err != nil {
			t.Fatal(err)
		}
		body := "go test fuzz v1\n[]byte(" + strconv.Quote(string(data)) + ")\n"
		if err := os.WriteFile(d+"/"+name, []byte(body), 0o644); err != nil {
			t.Fatal(err)
		}
	}
	r := &c13Rng{s: 2024}
	names := []string{"FuzzVerifC13TL", "FuzzVerifC13JSON", "FuzzVerifC13Msgpack", "FuzzVerifC13Protobuf"}
	for i := 0; i < 12; i++ {
		b := c13Batch{Enc: c13Enc{Seed: r.next(), JS: i % 3, MP: i % 3, PB: i % 5}}
		for j := 0; j <= i%3; j++ {
			m := c13Metric{Name: []string{"m", "api_requests", "\u043c\u0435\u0442\u0440\u0438\u043a\u0430"}[(i+j)%3]}
			for k := 0; k < (i+j)%4; k++ {
				m.Tags = append(m.Tags, c13Tag{K: []string{"env", "1", "_s", "platform"}[k], V: []string{"production", "x y", "", strings.Repeat("v", 40)}[(i+k)%4]})
			}
			if (i+j)%2 == 0 {
				m.HasC, m.C = true, vpF([]float64{1, 2.5, 0, 1e21}[i%4])
			}
			if i%3 != 1 {
				m.HasT, m.T = true, []uint32{1670673392, 0, 255, math.MaxUint32}[i%4]
			}
			switch (i + j) % 4 {
			case 0:
				m.HasV, m.V = true, []vpF{0.7, -1, 1e300, 5e-324}
			case 1:
				m.HasU, m.U = true, []int64{591068825, -1, 1 << 40, math.MinInt64}
			case 2:
				m.HasH, m.H = true, [][2]vpF{{1.5, 2}, {-3, 0.25}}
			}
			b.Metrics = append(b.Metrics, m)
		}
		if i%4 == 3 && len(b.Metrics) > 1 {
			b.Enc.Split = []int{1, len(b.Metrics) - 1}
		}
		for f, n := range names {
			p := c13Encode(&b, f)
			write(n, fmt.Sprintf("seed-%02d", i), p)
			write("FuzzVerifC13Any", fmt.Sprintf("seed-%s-%02d", c13FmtNames[f], i), p)
		}
		// one collection header announcing more elements than the packet holds
		inf := &c13Inflate{at: i % 5, to: []uint32{17, 65536, math.MaxUint32}[i%3]}
		write("FuzzVerifC13Msgpack", fmt.Sprintf("inflated-%02d", i), c13EncMsgpack(&b, inf))
		inf = &c13Inflate{at: i % 5, to: []uint32{17, 65536, math.MaxUint32}[i%3]}
		write("FuzzVerifC13TL", fmt.Sprintf("inflated-%02d", i), c13EncTL(&b, inf))
	}
	write("FuzzVerifC13Any", "legacy", []byte("SH\x01\x02legacy"))
	write("FuzzVerifC13Any", "truncated-map16", []byte{0xde, 0x00})
	write("FuzzVerifC13Protobuf", "unpacked-unique", []byte{0xca, 0xc1, 0x06, 0x07, 0x0a, 0x01, 'm', 0x30, 0x01, 0x30, 0x02})
}

// ---------------------------------------------------------------- replay

func init() {
	vpReplayers["C13/xformat"] = func(t vpT, raw json.RawMessage) {
		var c c13Batch
		if err := json.Unmarshal(raw, &c); err != nil {
			t.Fatalf("decode: %v", err)
		}
		c13PropXformat(t, c)
	}
	vpReplayers["C13/tcpstream"] = func(t vpT, raw json.RawMessage) {
		var c c13Stream
		if err := json.Unmarshal(raw, &c); err != nil {
			t.Fatalf("decode: %v", err)
		}
		c13PropTCP(t, c, true)
	}
	vpReplayers["C13/robust"] = func(t vpT, raw json.RawMessage) {
		var c c13Pkt
		if err := json.Unmarshal(raw, &c); err != nil {
			t.Fatalf("decode: %v", err)
		}
		c13PropRobust(t, c, true)
	}
}
