//go:build verif

package sqlite

// C17/replica — the engine as a follower (Options.Replica) driven, in process, through the binlog.Engine
// callbacks it registers, by a scripted binlog whose Commit position may lag behind what it already
// handed to Apply (fsbinlog never does that: it commits everything it has read).
//
// "In the binlog" = committed by the scripted binlog. After every step: View readers and a byte copy of
// the database files show exactly a prefix of the committed events with a stored offset that marks that
// prefix and does not exceed the committed offset; at the end a master started on a real fsbinlog file
// holding exactly the committed bytes must arrive at apply(all committed events).

import (
	"context"
	"encoding/binary"
	"encoding/json"
	"fmt"
	"hash/crc32"
	"io"
	"log"
	"os"
	"path/filepath"
	"strings"
	"sync"
	"testing"
	"time"

	"pgregory.net/rapid"

	"github.com/VKCOM/statshouse/internal/vkgo/binlog"
	"github.com/VKCOM/statshouse/internal/vkgo/binlog/fsbinlog"
)

type c17rOp struct {
	K    string `json:"k"`              // a apply, s service record (Skip), c commit, r restart of the replica
	N    int    `json:"n,omitempty"`    // a: whole events in the payload (>=0)
	Part int    `json:"part,omitempty"` // a: >0: the payload also carries the first 4*Part bytes of the next event (if that is a strict prefix)
	Over bool   `json:"over,omitempty"` // a: the payload runs on over a following service record, as fsbinlog's read buffer does
	Lag  int    `json:"lag,omitempty"`  // c: commit that many record boundaries behind what was delivered
	Fill []int  `json:"fill,omitempty"` // a: filler sizes of events that have to be generated for this step
}

type c17rCase struct {
	CommitEveryMs int      `json:"commit_every_ms"`
	Ops           []c17rOp `json:"ops"`
}

type c17rItem struct {
	Ev         *c17Ev // nil: service record
	Start, End int64
}

// c17Script is the follower binlog: Run parks on a channel of closures so that every engine callback is
// made from the one goroutine the engine believes to be the binlog's event reactor.
type c17Script struct {
	mu          sync.Mutex
	eng         binlog.Engine
	startOffset int64
	startMeta   []byte
	ready       chan struct{}
	steps       chan func()
	stop        chan struct{}
	stopOnce    sync.Once
}

func c17NewScript() *c17Script {
	return &c17Script{ready: make(chan struct{}), steps: make(chan func()), stop: make(chan struct{})}
}

func (b *c17Script) Run(offset int64, sm []byte, cm []byte, eng binlog.Engine) error {
	b.mu.Lock()
	b.eng, b.startOffset, b.startMeta = eng, offset, append([]byte(nil), sm...)
	b.mu.Unlock()
	if err := eng.ChangeRole(binlog.ChangeRoleInfo{IsMaster: false, IsReady: true}); err != nil {
		return err
	}
	close(b.ready)
	for {
		select {
		case f := <-b.steps:
			f()
		case <-b.stop:
			return nil
		}
	}
}

func (b *c17Script) do(f func()) error {
	done := make(chan struct{})
	select {
	case b.steps <- func() { f(); close(done) }:
	case <-time.After(20 * time.Second):
		return fmt.Errorf("scripted binlog is not running")
	}
	select {
	case <-done:
		return nil
	case <-time.After(20 * time.Second):
		return fmt.Errorf("engine callback did not return within 20s")
	}
}

func (b *c17Script) Append(int64, []byte) (int64, error) {
	return 0, fmt.Errorf("follower binlog: not a master")
}
func (b *c17Script) AppendASAP(int64, []byte) (int64, error) {
	return 0, fmt.Errorf("follower binlog: not a master")
}
func (b *c17Script) EngineStatus(binlog.EngineStatus)     {}
func (b *c17Script) GetStartCmd() (binlog.StartCmd, bool) { return binlog.StartCmd{}, false }
func (b *c17Script) RequestShutdown()                     { b.stopOnce.Do(func() { close(b.stop) }) }
func (b *c17Script) RequestReindex(bool, bool)            {}
func (b *c17Script) AddStats(map[string]string)           {}

func c17rMeta(pos int64, crc uint32) []byte { // fsbinlog's snapshot meta, TL boxed: tag, fields mask, position, crc, timestamp
	b := make([]byte, 24)
	binary.LittleEndian.PutUint32(b, fsbinlog.MagicFsbinlogSnapshotMeta)
	binary.LittleEndian.PutUint64(b[8:], uint64(pos))
	binary.LittleEndian.PutUint32(b[16:], crc)
	binary.LittleEndian.PutUint32(b[20:], 1)
	return b
}

type c17rStats struct {
	steps, laggingCommits, checksAfterLag, restarts, masterRestarts, queuedApplies int
}

func c17PropReplica(t vpT, c c17rCase, dir string, st *c17rStats) (nontrivial bool, classes []string) {
	// the byte stream starts with the start records of a real fsbinlog file, so that the committed bytes are one
	bldir := filepath.Join(dir, "bl")
	if err := os.MkdirAll(bldir, 0o755); err != nil {
		t.Fatalf("VP-INCONCLUSIVE %v", err)
	}
	blopts := fsbinlog.Options{PrefixPath: filepath.Join(bldir, "bl"), Magic: c17SchemaID}
	blfile, err := fsbinlog.CreateEmptyFsBinlog(blopts)
	if err != nil {
		t.Fatalf("VP-INCONCLUSIVE %v", err)
	}
	stream, err := os.ReadFile(blfile)
	if err != nil || len(stream) != 44 {
		t.Fatalf("VP-INCONCLUSIVE start records: %d bytes, %v", len(stream), err)
	}
	items := []c17rItem{{Start: 0, End: 24}, {Start: 24, End: 44}}
	var (
		pos       int64 // what the engine has been handed and has accepted
		committed int64
		nextSeq   = uint32(1)
		lagSeen   bool
	)
	itemAt := func(p int64) int {
		for i, it := range items {
			if it.Start == p {
				return i
			}
		}
		return len(items)
	}
	genEvent := func(fill int) {
		e := c17Ev{Seq: nextSeq, Key: uint8(nextSeq % 4), Delta: int32(nextSeq)*7 - 50, Fill: fill}
		nextSeq++
		b := c17Encode(e)
		for len(b)%4 != 0 {
			b = append(b, 0)
		}
		items = append(items, c17rItem{Ev: &e, Start: int64(len(stream)), End: int64(len(stream) + len(b))})
		stream = append(stream, b...)
	}
	genCrc := func() {
		b := make([]byte, 20)
		binary.LittleEndian.PutUint32(b, 0x04435243)
		binary.LittleEndian.PutUint32(b[4:], 1)
		binary.LittleEndian.PutUint64(b[8:], uint64(len(stream)))
		binary.LittleEndian.PutUint32(b[16:], crc32.ChecksumIEEE(stream))
		items = append(items, c17rItem{Start: int64(len(stream)), End: int64(len(stream) + 20)})
		stream = append(stream, b...)
	}
	durable := func() *c17Durable { // the committed part of the stream, in the shape the C17 oracles take
		d := &c17Durable{Bounds: map[int64]bool{}, End: committed}
		for _, it := range items {
			if it.End > committed {
				break
			}
			d.Bounds[it.End] = true
			if it.Ev != nil {
				d.Events = append(d.Events, c17DEv{c17Ev: *it.Ev, Start: it.Start, End: it.End})
			}
		}
		return d
	}
	var (
		eng    *Engine
		script *c17Script
	)
	open := func(what string) {
		script = c17NewScript()
		var err error
		eng, err = OpenEngine(Options{
			Path:           filepath.Join(dir, "db"),
			APPID:          17,
			Scheme:         c17Schema,
			Replica:        true,
			DurabilityMode: WaitCommit,
			CommitEvery:    time.Duration(c.CommitEveryMs) * time.Millisecond,
		}, script, c17ApplyFn(false), c17ApplyFn(true))
		if err != nil {
			t.Fatalf("%s: OpenEngine(replica): %v", what, err)
		}
		script.mu.Lock()
		off := script.startOffset
		script.mu.Unlock()
		if off > committed || itemAt(off) == len(items) && off != int64(len(stream)) && off != 0 {
			t.Fatalf("%s: the replica asks the binlog to start at offset %d; committed %d, record boundaries %v", what, off, committed, c17rBounds(items))
		}
		pos = off
	}
	closeEngine := func() {
		ctx, cancel := context.WithTimeout(context.Background(), 20*time.Second)
		defer cancel()
		err := eng.Close(ctx)
		eng.stop()                                                         // Close leaves the engine's txLoop goroutine running; thousands of them kill a long test process
		if err != nil && !strings.Contains(err.Error(), "binlog closed") { // nothing to wait for: the binlog will never commit the rest
			if ctx.Err() != nil {
				t.Fatalf("VP-INCONCLUSIVE Close did not return")
			}
			t.Fatalf("Close: %v", err)
		}
	}
	defer func() {
		if eng != nil {
			script.RequestShutdown()
			ctx, cancel := context.WithTimeout(context.Background(), 5*time.Second)
			_ = eng.Close(ctx)
			eng.stop()
			cancel()
		}
	}()
	check := func(what string, withReader bool) {
		d := durable()
		if withReader {
			var seqs []uint32
			var acc map[string]int64
			var off int64
			if err := eng.View(context.Background(), "c17r_view", func(conn Conn) error {
				var err error
				seqs, acc, off, err = c17ReadState(conn)
				return err
			}); err != nil {
				t.Fatalf("%s: View: %v", what, err)
			}
			if err := c17Prefix(what+": a reader (binlog committed "+fmt.Sprint(committed)+", delivered "+fmt.Sprint(pos)+")", seqs, acc, off, d); err != nil {
				t.Fatalf("%v", err)
			}
		}
		seqs, acc, off, exists, err := c17Snapshot(t, dir, st.steps)
		if err != nil {
			t.Fatalf("%s: copy of the database files cannot be read: %v", what, err)
		}
		if exists {
			if err := c17Prefix(what+": copy of the database files (binlog committed "+fmt.Sprint(committed)+", delivered "+fmt.Sprint(pos)+")", seqs, acc, off, d); err != nil {
				t.Fatalf("%v", err)
			}
		}
		if lagSeen {
			st.checksAfterLag++
		}
	}
	call := func(what string, f func()) {
		if err := script.do(f); err != nil {
			t.Fatalf("VP-INCONCLUSIVE %s: %v", what, err)
		}
	}
	open("first start")
	for i, op := range c.Ops {
		st.steps++
		what := fmt.Sprintf("op %d (%s)", i, op.K)
		switch op.K {
		case "a":
			// make sure enough records exist behind pos, then cut the payload
			idx := itemAt(pos)
			if idx < len(items) && items[idx].Ev == nil {
				continue // a service record is next: fsbinlog handles those itself (Skip)
			}
			fills := op.Fill
			need := op.N
			if op.Part > 0 {
				need++
			}
			end, whole, j := pos, 0, idx
			for whole < need {
				if j == len(items) {
					fill := 8
					if len(fills) > 0 {
						fill, fills = fills[0], fills[1:]
					}
					genEvent(fill)
				}
				if items[j].Ev == nil {
					break
				}
				if whole == op.N { // the partial one
					break
				}
				end = items[j].End
				whole++
				j++
			}
			cut := end
			switch {
			case j < len(items) && items[j].Ev == nil && op.Over:
				cut = items[j].End
			case j < len(items) && items[j].Ev != nil && op.Part > 0:
				if p := end + int64(4*op.Part); p < items[j].End {
					cut = p
				}
			}
			if cut == pos {
				continue
			}
			payload := append([]byte(nil), stream[pos:cut]...)
			var got int64
			var aerr error
			call(what, func() { got, aerr = script.eng.Apply(payload) })
			if got != end {
				t.Fatalf("%s: Apply of %d bytes at %d (%d whole events) returned offset %d, expected %d (err %v)", what, len(payload), pos, whole, got, end, aerr)
			}
			if aerr != nil && !isExpectedError(aerr) {
				t.Fatalf("%s: Apply returned %v", what, aerr)
			}
			if cut == end && whole > 0 && aerr != nil {
				t.Fatalf("%s: Apply of %d whole events returned %v", what, whole, aerr)
			}
			pos = end
		case "s":
			idx := itemAt(pos)
			if idx == len(items) {
				if pos != int64(len(stream)) {
					continue
				}
				genCrc()
			}
			if items[idx].Ev != nil {
				continue
			}
			n := items[idx].End - items[idx].Start
			var got int64
			var serr error
			call(what, func() { got, serr = script.eng.Skip(n) })
			if serr != nil || got != pos+n {
				t.Fatalf("%s: Skip(%d) at %d returned (%d, %v)", what, n, pos, got, serr)
			}
			pos += n
		case "c":
			var bounds []int64
			for _, it := range items {
				if it.End > committed && it.End <= pos {
					bounds = append(bounds, it.End)
				}
			}
			if len(bounds) == 0 {
				continue
			}
			k := len(bounds) - 1 - op.Lag%len(bounds)
			off := bounds[k]
			if off < pos {
				st.laggingCommits++
				lagSeen = true
				nontrivial = true
			}
			meta := c17rMeta(off, crc32.ChecksumIEEE(stream[:off]))
			committed = off // from now on these bytes are "in the binlog"
			var cerr error
			call(what, func() { cerr = script.eng.Commit(off, meta, off) })
			if cerr != nil {
				t.Fatalf("%s: Commit(%d) returned %v", what, off, cerr)
			}
		case "r":
			script.RequestShutdown()
			closeEngine()
			eng = nil
			check(what+": after Close", false)
			st.restarts++
			open(what)
		default:
			continue
		}
		check(what, true)
	}
	script.RequestShutdown()
	closeEngine()
	eng = nil
	check("after the final Close", false)

	// a master on a real fsbinlog that holds exactly the committed bytes
	if committed >= 44 {
		if err := os.WriteFile(blfile, stream[:committed], 0o640); err != nil {
			t.Fatalf("VP-INCONCLUSIVE %v", err)
		}
		bl, _ := fsbinlog.NewFsBinlog(nil, blopts)
		m, err := OpenEngine(Options{Path: filepath.Join(dir, "db"), APPID: 17, Scheme: c17Schema, DurabilityMode: WaitCommit, CommitEvery: 5 * time.Millisecond}, bl, c17ApplyFn(false), c17ApplyFn(true))
		if err != nil {
			t.Fatalf("a master does not open on the committed binlog (%d bytes): %v", committed, err)
		}
		var seqs []uint32
		var acc map[string]int64
		var off int64
		err = m.Do(context.Background(), "c17r_state", func(conn Conn, cache []byte) ([]byte, error) {
			var err error
			seqs, acc, off, err = c17ReadState(conn)
			return nil, err
		})
		ctx, cancel := context.WithTimeout(context.Background(), 20*time.Second)
		cerr := m.Close(ctx)
		m.stop()
		cancel()
		if err != nil || cerr != nil {
			t.Fatalf("master on the committed binlog: Do %v, Close %v", err, cerr)
		}
		d := durable()
		if err := c17SameState(seqs, acc, c17Model(d.Events)); err != nil {
			t.Fatalf("master restarted on the committed binlog (%d bytes) is not the application of every committed event: %v", committed, err)
		}
		if off > committed {
			t.Fatalf("master restarted on the committed binlog stores offset %d, the binlog has %d bytes", off, committed)
		}
		st.masterRestarts++
		classes = append(classes, "master-restart-on-committed-bytes")
	}
	if st.laggingCommits > 0 {
		classes = append(classes, "commit-lags-behind-applied")
	}
	if st.restarts > 0 {
		classes = append(classes, "replica-restart")
	}
	for _, it := range items[2:] {
		if it.Ev == nil {
			classes = append(classes, "service-record")
			break
		}
	}
	return nontrivial, classes
}

func c17rBounds(items []c17rItem) []int64 {
	var b []int64
	for _, it := range items {
		b = append(b, it.End)
	}
	if len(b) > 20 {
		b = b[len(b)-20:]
	}
	return b
}

func c17rGen() *rapid.Generator[c17rCase] {
	return rapid.Custom(func(t *rapid.T) c17rCase {
		c := c17rCase{CommitEveryMs: rapid.SampledFrom([]int{1, 1, 20, 3600000}).Draw(t, "commit_every")}
		c.Ops = append(c.Ops, c17rOp{K: "s"}, c17rOp{K: "s"}) // the two start records
		n := rapid.IntRange(3, 30).Draw(t, "nops")
		for i := 0; i < n; i++ {
			switch k := rapid.IntRange(0, 19).Draw(t, "op"); {
			case k <= 11:
				op := c17rOp{K: "a", N: rapid.IntRange(0, 4).Draw(t, "n"), Over: rapid.Bool().Draw(t, "over")}
				if rapid.IntRange(0, 2).Draw(t, "part?") == 0 {
					op.Part = rapid.IntRange(1, 8).Draw(t, "part")
				}
				for j := 0; j <= op.N; j++ {
					f := rapid.IntRange(0, 60).Draw(t, "fill")
					if rapid.IntRange(0, 15).Draw(t, "big?") == 0 {
						f = rapid.IntRange(61, 5000).Draw(t, "bigfill")
					}
					op.Fill = append(op.Fill, f)
				}
				c.Ops = append(c.Ops, op)
			case k <= 12:
				c.Ops = append(c.Ops, c17rOp{K: "s"})
			case k <= 17:
				op := c17rOp{K: "c"}
				if rapid.IntRange(0, 2).Draw(t, "lag?") != 0 {
					op.Lag = rapid.IntRange(1, 6).Draw(t, "lag")
				}
				c.Ops = append(c.Ops, op)
			default:
				c.Ops = append(c.Ops, c17rOp{K: "r"})
			}
		}
		return c
	})
}

func TestVerifC17Replica(t *testing.T) {
	if os.Getenv("C17_PLAN") != "" {
		t.Skip("child role")
	}
	log.SetOutput(io.Discard) // the engine logs every open
	ev := vpNewEv(t, "C17", "replica")
	var total c17rStats
	rapid.Check(t, func(rt *rapid.T) {
		c := c17rGen().Draw(rt, "case")
		vpRunCase(rt, "C17", "replica", c, func() {
			dir := c17TempDir(rt)
			defer os.RemoveAll(dir)
			var st c17rStats
			nt, cls := c17PropReplica(rt, c, dir, &st)
			total.steps += st.steps
			total.laggingCommits += st.laggingCommits
			total.checksAfterLag += st.checksAfterLag
			total.restarts += st.restarts
			total.masterRestarts += st.masterRestarts
			ev.Case(nt, c, cls...)
		})
	})
	ev.Class("replica:callback-steps", int64(total.steps))
	ev.Class("replica:commits-behind-applied", int64(total.laggingCommits))
	ev.Class("replica:reader+copy-checks-after-a-lagging-commit", int64(total.checksAfterLag))
	ev.Class("replica:restarts", int64(total.restarts))
	ev.Class("replica:master-restarts-on-committed-bytes", int64(total.masterRestarts))
}

func init() {
	vpReplayers["C17/replica"] = func(t vpT, raw json.RawMessage) {
		var c c17rCase
		if err := json.Unmarshal(raw, &c); err != nil {
			t.Fatalf("%v", err)
		}
		log.SetOutput(io.Discard)
		dir := c17TempDir(t)
		defer os.RemoveAll(dir)
		var st c17rStats
		c17PropReplica(t, c, dir, &st)
	}
}
