//go:build verif

package sqlite

// C17 — the binlog-backed SQLite engine stays consistent with its binlog across process kills.
//
// A case is a list of segments. Every segment is one child process (a re-exec of this test binary,
// role TestVerifC17Child) that opens the real engine (OpenEngine) on a real fsbinlog in a directory
// shared by all segments of the case, reports the state it finds, runs a workload of concurrent
// writers / failing callbacks / readers, and is SIGKILLed at an enumerated point (k-th
// Append/AppendASAP, k-th Commit or Apply callback, k-th chunk-file creation: before or after) or
// at a random time by the parent, or closes cleanly. After every death the parent parses the binlog
// files itself, inspects a copy of the database files, and checks the next segment's report.

import (
	"bufio"
	"context"
	"encoding/binary"
	"encoding/json"
	"errors"
	"fmt"
	"io"
	"os"
	osexec "os/exec"
	"path/filepath"
	"runtime"
	"sort"
	"strings"
	"sync"
	"sync/atomic"
	"syscall"
	"testing"
	"time"

	"github.com/myxo/gofs"
	"pgregory.net/rapid"

	"github.com/VKCOM/statshouse/internal/sqlite/sqlite0"
	"github.com/VKCOM/statshouse/internal/vkgo/binlog"
	"github.com/VKCOM/statshouse/internal/vkgo/binlog/fsbinlog"
)

const c17SigTornTail = "torn-tail-refuses-restart"
const c17SigRotGap = "interrupted-rotation-refuses-restart"

const (
	c17Magic     = uint32(0x3c17e0b5)
	c17EvHdr     = 20 // magic seq key delta fill
	c17Schema    = "CREATE TABLE IF NOT EXISTS ev (seq INTEGER, delta INTEGER); CREATE TABLE IF NOT EXISTS acc (k INTEGER PRIMARY KEY, total INTEGER);"
	c17SchemaID  = 0x0c17c17
	c17ChildWall = 60 * time.Second
)

// ---------------------------------------------------------------- case

type c17Op struct {
	Seq     uint32 `json:"seq"`
	Key     uint8  `json:"key"`
	Delta   int32  `json:"delta"`
	Fill    int    `json:"fill,omitempty"`  // filler bytes in the event (varies size and padding)
	Fail    int    `json:"fail,omitempty"`  // 1: callback runs its SQL, then returns an error; 2: returns an error before any SQL; 3: callback runs its SQL, cancels the context Do was given and returns the event normally
	PauseUs int    `json:"pause,omitempty"` // sleep before the op
}

type c17Kill struct {
	At string  `json:"at"` // none | timer | ack-after | append-before | append-after | commit-before | commit-after | apply-before | apply-after | create-before | create-after
	K  int     `json:"k,omitempty"`
	Ms float64 `json:"ms,omitempty"` // timer: delay after the child reported its open state
}

type c17Seg struct {
	NoWait        bool      `json:"nowait,omitempty"` // NoWaitCommit instead of WaitCommit
	CommitEveryMs int       `json:"commit_every_ms"`
	Writers       [][]c17Op `json:"writers"`
	Readers       int       `json:"readers,omitempty"`
	Kill          c17Kill   `json:"kill"`
	Reject        []int     `json:"reject,omitempty"`      // the k-th Append/AppendASAP calls of this process return an error without appending
	CloseAfter    int       `json:"close_after,omitempty"` // >0: Close() is called after that many acknowledgements while the writers go on
	IOFail        int       `json:"io_fail,omitempty"`     // >0: from the k-th Append/AppendASAP on the binlog chunk's writes and fsyncs fail (its descriptor is closed under the writer, as a dying disk would); the segment ends shortly after
	Tear          int       `json:"tear,omitempty"`        // >0: once the process is gone the parent leaves the first 1+(Tear-1)%119 bytes of one more (120-byte) event at the end of the newest binlog file: a write torn by the kill
}

type c17Case struct {
	Chunk uint32   `json:"chunk,omitempty"` // fsbinlog MaxChunkSize, 0 = default (no rotation)
	Segs  []c17Seg `json:"segs"`            // the last one always ends with a clean Close
}

type c17Ev struct {
	Seq   uint32
	Key   uint8
	Delta int32
	Fill  int
}

func c17Encode(e c17Ev) []byte {
	b := make([]byte, c17EvHdr+e.Fill)
	binary.LittleEndian.PutUint32(b, c17Magic)
	binary.LittleEndian.PutUint32(b[4:], e.Seq)
	binary.LittleEndian.PutUint32(b[8:], uint32(e.Key))
	binary.LittleEndian.PutUint32(b[12:], uint32(e.Delta))
	binary.LittleEndian.PutUint32(b[16:], uint32(e.Fill))
	for i := 0; i < e.Fill; i++ {
		b[c17EvHdr+i] = byte(e.Seq) + byte(i)*7
	}
	return b
}

// c17Decode returns the event and its unpadded length.
func c17Decode(b []byte) (c17Ev, int, error) {
	if len(b) < 4 {
		return c17Ev{}, 0, binlog.ErrorNotEnoughData
	}
	if binary.LittleEndian.Uint32(b) != c17Magic {
		return c17Ev{}, 0, binlog.ErrorUnknownMagic
	}
	if len(b) < c17EvHdr {
		return c17Ev{}, 0, binlog.ErrorNotEnoughData
	}
	e := c17Ev{Seq: binary.LittleEndian.Uint32(b[4:]), Key: uint8(binary.LittleEndian.Uint32(b[8:])), Delta: int32(binary.LittleEndian.Uint32(b[12:])), Fill: int(binary.LittleEndian.Uint32(b[16:]))}
	if e.Fill < 0 || e.Fill > 1<<24 {
		return c17Ev{}, 0, fmt.Errorf("c17: corrupt event header (fill %d)", e.Fill)
	}
	if len(b) < c17EvHdr+e.Fill {
		return c17Ev{}, 0, binlog.ErrorNotEnoughData
	}
	for i := 0; i < e.Fill; i++ {
		if b[c17EvHdr+i] != byte(e.Seq)+byte(i)*7 {
			return c17Ev{}, 0, fmt.Errorf("c17: corrupt filler in event seq %d", e.Seq)
		}
	}
	return e, c17EvHdr + e.Fill, nil
}

// ---------------------------------------------------------------- child side

func c17ExecSQL(conn Conn, e c17Ev) error {
	if _, err := conn.Exec("c17_ev", "INSERT INTO ev(seq, delta) VALUES ($seq, $delta)", Int64("$seq", int64(e.Seq)), Int64("$delta", int64(e.Delta))); err != nil {
		return err
	}
	_, err := conn.Exec("c17_acc", "INSERT INTO acc(k, total) VALUES ($k, $d) ON CONFLICT(k) DO UPDATE SET total = total + $d", Int64("$k", int64(e.Key)), Int64("$d", int64(e.Delta)))
	return err
}

// c17ApplyFn is the engine's replay function; the same SQL as the write path (c17ExecSQL).
func c17ApplyFn(scanOnly bool) ApplyEventFunction {
	return func(conn Conn, offset int64, b []byte) (int, error) {
		read := 0
		for len(b) > 0 {
			e, n, err := c17Decode(b)
			if err != nil {
				return read, err
			}
			if !scanOnly {
				if err := c17ExecSQL(conn, e); err != nil {
					return read, err
				}
			}
			adv := fsbinlog.AddPadding(n)
			if adv > len(b) {
				adv = len(b)
			}
			read += adv
			b = b[adv:]
		}
		return read, nil
	}
}

type c17Killer struct {
	at     string
	k      int64
	counts sync.Map // base name -> *int64
}

func (k *c17Killer) hit(base, side string) {
	if k.at == "" || !strings.HasPrefix(k.at, base+"-") {
		return
	}
	p, _ := k.counts.LoadOrStore(base+"-"+side, new(int64))
	n := atomic.AddInt64(p.(*int64), 1)
	if k.at == base+"-"+side && n == k.k {
		_ = syscall.Kill(os.Getpid(), syscall.SIGKILL)
		select {} // never continue past the kill point
	}
}

type c17Binlog struct {
	binlog.Binlog
	k         *c17Killer
	committed *atomic.Int64
	reject    map[int64]bool
	appends   atomic.Int64
	ioFailAt  int64
	fs        *c17FS
}

var errC17Reject = errors.New("c17: binlog refused the event on purpose")

func (b *c17Binlog) rejected() bool {
	n := b.appends.Add(1)
	if b.ioFailAt > 0 && n == b.ioFailAt {
		b.fs.failIO()
	}
	return b.reject[n]
}

func (b *c17Binlog) Run(offset int64, sm []byte, cm []byte, eng binlog.Engine) error {
	return b.Binlog.Run(offset, sm, cm, &c17Engine{Engine: eng, k: b.k, committed: b.committed})
}

func (b *c17Binlog) Append(on int64, p []byte) (int64, error) {
	b.k.hit("append", "before")
	if b.rejected() {
		return on, errC17Reject
	}
	n, err := b.Binlog.Append(on, p)
	b.k.hit("append", "after")
	return n, err
}

func (b *c17Binlog) AppendASAP(on int64, p []byte) (int64, error) {
	b.k.hit("append", "before")
	if b.rejected() {
		return on, errC17Reject
	}
	n, err := b.Binlog.AppendASAP(on, p)
	b.k.hit("append", "after")
	return n, err
}

type c17Engine struct {
	binlog.Engine
	k         *c17Killer
	committed *atomic.Int64
}

func (e *c17Engine) Apply(p []byte) (int64, error) {
	e.k.hit("apply", "before")
	n, err := e.Engine.Apply(p)
	e.k.hit("apply", "after")
	return n, err
}

func (e *c17Engine) Commit(off int64, meta []byte, safe int64) error {
	e.k.hit("commit", "before")
	for { // the binlog's commit offset, published before the engine learns about it
		old := e.committed.Load()
		if off <= old || e.committed.CompareAndSwap(old, off) {
			break
		}
	}
	err := e.Engine.Commit(off, meta, safe)
	e.k.hit("commit", "after")
	return err
}

// c17FS lets the child die right before / after the writer creates a new chunk file.
type c17FS struct {
	gofs.FS
	k       *c17Killer
	mu      sync.Mutex
	writers []*gofs.File // chunk files opened for writing
	faulted atomic.Bool
	faultCh chan struct{}
}

// failIO makes every write and fsync of the binlog fail from now on: gofs.File is a concrete type, so the
// fault is injected by closing the chunk's descriptor behind the writer's back (os.File then answers
// "file already closed" without touching the descriptor number again).
func (f *c17FS) failIO() {
	if f.faulted.Swap(true) {
		return
	}
	f.mu.Lock()
	for _, h := range f.writers {
		_ = h.Close()
	}
	f.mu.Unlock()
	close(f.faultCh)
}

func (f *c17FS) OpenFile(name string, flag int, perm os.FileMode) (*gofs.File, error) {
	create := flag&os.O_CREATE != 0 && flag&os.O_EXCL != 0 && strings.HasSuffix(name, ".bin") && !strings.HasSuffix(name, ".000000.bin")
	if create {
		f.k.hit("create", "before")
	}
	h, err := f.FS.OpenFile(name, flag, perm)
	if create {
		f.k.hit("create", "after")
	}
	if err == nil && flag&(os.O_WRONLY|os.O_RDWR) != 0 && strings.HasSuffix(name, ".bin") {
		f.mu.Lock()
		f.writers = append(f.writers, h)
		f.mu.Unlock()
		if f.faulted.Load() {
			_ = h.Close()
		}
	}
	return h, err
}

type c17ChildPlan struct {
	Dir   string `json:"dir"`
	Chunk uint32 `json:"chunk"`
	Seg   c17Seg `json:"seg"`
}

type c17Line struct {
	T         string           `json:"t"`
	Seq       uint32           `json:"seq,omitempty"`
	Seqs      []uint32         `json:"seqs,omitempty"`
	Acc       map[string]int64 `json:"acc,omitempty"`
	Off       int64            `json:"off,omitempty"`
	Committed int64            `json:"committed,omitempty"`
	N         int              `json:"n,omitempty"`
	Msg       string           `json:"msg,omitempty"`
}

var c17OutMu sync.Mutex

func c17Emit(l c17Line) {
	b, _ := json.Marshal(l)
	b = append(b, '\n')
	c17OutMu.Lock()
	_, _ = os.Stdout.Write(b) // one write per line: a SIGKILL cannot tear a line that was reported
	c17OutMu.Unlock()
}

func c17ReadState(conn Conn) (seqs []uint32, acc map[string]int64, off int64, err error) {
	rows := conn.Query("c17_sel_ev", "SELECT seq FROM ev ORDER BY rowid")
	for rows.Next() {
		v, _ := rows.ColumnInt64(0)
		seqs = append(seqs, uint32(v))
	}
	if rows.Error() != nil {
		return nil, nil, 0, rows.Error()
	}
	acc = map[string]int64{}
	rows = conn.Query("c17_sel_acc", "SELECT k, total FROM acc")
	for rows.Next() {
		k, _ := rows.ColumnInt64(0)
		v, _ := rows.ColumnInt64(1)
		acc[fmt.Sprint(k)] = v
	}
	if rows.Error() != nil {
		return nil, nil, 0, rows.Error()
	}
	rows = conn.Query("c17_sel_off", "SELECT offset FROM __binlog_offset")
	for rows.Next() {
		off, _ = rows.ColumnInt64(0)
	}
	return seqs, acc, off, rows.Error()
}

var errC17Fail = errors.New("c17: callback failed on purpose")

func TestVerifC17Child(t *testing.T) {
	raw := os.Getenv("C17_PLAN")
	if raw == "" {
		t.Skip("child role only")
	}
	go func() { // die with the parent: it holds the other end of stdin
		_, _ = io.Copy(io.Discard, os.Stdin)
		os.Exit(3)
	}()
	time.AfterFunc(c17ChildWall, func() { os.Exit(4) })
	var plan c17ChildPlan
	if err := json.Unmarshal([]byte(raw), &plan); err != nil {
		c17Emit(c17Line{T: "harness", Msg: err.Error()})
		os.Exit(5)
	}
	killer := &c17Killer{at: plan.Seg.Kill.At, k: int64(plan.Seg.Kill.K)}
	if killer.at == "none" || killer.at == "timer" {
		killer.at = ""
	}
	cfs := &c17FS{FS: gofs.OsFs(), k: killer, faultCh: make(chan struct{})}
	opts := fsbinlog.Options{PrefixPath: filepath.Join(plan.Dir, "bl"), Magic: c17SchemaID, MaxChunkSize: plan.Chunk, Fs: cfs}
	if _, err := os.Stat(opts.PrefixPath + ".000000.bin"); os.IsNotExist(err) {
		// harness set-up, made atomic (create aside, rename): a kill must not leave half of the start records
		tmp := filepath.Join(plan.Dir, fmt.Sprintf("mk%d", os.Getpid()))
		_ = os.MkdirAll(tmp, 0o755)
		name, err := fsbinlog.CreateEmptyFsBinlog(fsbinlog.Options{PrefixPath: filepath.Join(tmp, "bl"), Magic: c17SchemaID})
		if err == nil {
			err = os.Rename(name, opts.PrefixPath+".000000.bin")
		}
		_ = os.RemoveAll(tmp)
		if err != nil {
			c17Emit(c17Line{T: "harness", Msg: "create binlog: " + err.Error()})
			os.Exit(5)
		}
	}
	inner, _ := fsbinlog.NewFsBinlog(nil, opts)
	committed := &atomic.Int64{}
	bl := &c17Binlog{Binlog: inner, k: killer, committed: committed, reject: map[int64]bool{}, ioFailAt: int64(plan.Seg.IOFail), fs: cfs}
	for _, k := range plan.Seg.Reject {
		bl.reject[int64(k)] = true
	}
	mode := WaitCommit
	if plan.Seg.NoWait {
		mode = NoWaitCommit
	}
	eng, err := OpenEngine(Options{
		Path:           filepath.Join(plan.Dir, "db"),
		APPID:          17,
		Scheme:         c17Schema,
		DurabilityMode: mode,
		CommitEvery:    time.Duration(plan.Seg.CommitEveryMs) * time.Millisecond,
	}, bl, c17ApplyFn(false), c17ApplyFn(true))
	if err != nil {
		c17Emit(c17Line{T: "openerr", Msg: err.Error()})
		os.Exit(6)
	}
	ctx := context.Background()
	var open c17Line
	// the engine's own (read-write) view: View connections only show what SQLite has committed, and the
	// re-read events are committed with the next periodic commit
	err = eng.Do(ctx, "c17_open", func(conn Conn, cache []byte) ([]byte, error) {
		var err error
		open.Seqs, open.Acc, open.Off, err = c17ReadState(conn)
		return nil, err
	})
	if err != nil {
		c17Emit(c17Line{T: "openerr", Msg: "reading state: " + err.Error()})
		os.Exit(6)
	}
	open.T = "open"
	c17Emit(open)

	var wg, rwg sync.WaitGroup
	stopReaders := make(chan struct{})
	var acks atomic.Int64
	var closing atomic.Bool
	closeNow := make(chan struct{})
	var closeOnce sync.Once
	for r := 0; r < plan.Seg.Readers; r++ {
		rwg.Add(1)
		go func() {
			defer rwg.Done()
			for {
				select {
				case <-stopReaders:
					return
				default:
				}
				var seqs []uint32
				var off int64
				err := eng.View(ctx, "c17_view", func(conn Conn) error {
					var err error
					seqs, _, off, err = c17ReadState(conn)
					return err
				})
				cm := committed.Load() // read after the View: the binlog had committed at least this much by now
				if err != nil {
					c17Emit(c17Line{T: "viewerr", Msg: err.Error()})
				} else {
					c17Emit(c17Line{T: "view", Seqs: seqs, Off: off, Committed: cm})
				}
				time.Sleep(300 * time.Microsecond)
			}
		}()
	}
	for _, ops := range plan.Seg.Writers {
		wg.Add(1)
		go func(ops []c17Op) {
			defer wg.Done()
			for _, op := range ops {
				if op.PauseUs > 0 {
					time.Sleep(time.Duration(op.PauseUs) * time.Microsecond)
				}
				ev := c17Ev{Seq: op.Seq, Key: op.Key, Delta: op.Delta, Fill: op.Fill}
				c17Emit(c17Line{T: "start", Seq: op.Seq})
				opCtx, cancelOp := context.WithCancel(ctx)
				err := eng.Do(opCtx, "c17_do", func(conn Conn, cache []byte) ([]byte, error) {
					if op.Fail == 3 {
						defer cancelOp() // the caller gives up right when the callback is done: whatever the engine still does runs on a dead context
					}
					if op.Fail == 2 {
						return nil, errC17Fail
					}
					if err := c17ExecSQL(conn, ev); err != nil {
						return nil, err
					}
					if op.Fail == 1 {
						return c17Encode(ev), errC17Fail
					}
					return c17Encode(ev), nil
				})
				cancelOp()
				switch {
				case err == nil:
					c17Emit(c17Line{T: "ack", Seq: op.Seq})
					killer.hit("ack", "after")
					if n := acks.Add(1); plan.Seg.CloseAfter > 0 && n >= int64(plan.Seg.CloseAfter) {
						closeOnce.Do(func() { close(closeNow) })
					}
				case errors.Is(err, errC17Reject):
					c17Emit(c17Line{T: "rejected", Seq: op.Seq})
				case cfs.faulted.Load():
					c17Emit(c17Line{T: "ioerr", Seq: op.Seq, Msg: err.Error()}) // the binlog's disk is gone: Do may fail (or never return)
				case closing.Load():
					c17Emit(c17Line{T: "raceerr", Seq: op.Seq, Msg: err.Error()}) // Do racing Close may fail
				case op.Fail != 0 && errors.Is(err, errC17Fail):
					c17Emit(c17Line{T: "fail", Seq: op.Seq})
				case op.Fail == 3 && errors.Is(err, context.Canceled):
					c17Emit(c17Line{T: "cancelled", Seq: op.Seq}) // Do reported the write as failed
				default:
					c17Emit(c17Line{T: "doerr", Seq: op.Seq, Msg: err.Error()})
				}
			}
		}(ops)
	}
	writersDone := make(chan struct{})
	go func() { wg.Wait(); close(writersDone) }()
	select {
	case <-writersDone:
	case <-closeNow: // Close while the writers are still at work
	case <-cfs.faultCh:
		// binlog I/O is failing. Writers whose Do neither fails nor returns are given a bounded wait and count as
		// unacknowledged; then the process ends without Close (the next segment restarts on the same files).
		select {
		case <-writersDone:
		case <-time.After(400 * time.Millisecond):
		}
		c17Emit(c17Line{T: "ioend"})
		os.Exit(0)
	}
	closing.Store(true)
	close(stopReaders)
	rwg.Wait()
	cctx, cancel := context.WithTimeout(ctx, 20*time.Second)
	defer cancel()
	err = eng.Close(cctx)
	select {
	case <-writersDone:
	case <-time.After(3 * time.Second): // a writer stuck behind a closed engine is not this property's business
	}
	if err != nil {
		c17Emit(c17Line{T: "closeerr", Msg: err.Error()})
		os.Exit(7)
	}
	c17Emit(c17Line{T: "done"})
	os.Exit(0)
}

// ---------------------------------------------------------------- parent side: processes

type c17Run struct {
	lines    []c17Line
	killed   bool // died from SIGKILL
	exitCode int
	stderr   string
}

// c17Spawn runs one segment in a child process and returns everything it reported. The child is in
// its own process group, is sent SIGKILL if this process dies (Pdeathsig, plus the stdin pipe), and
// the whole group is killed on every return path.
func c17Spawn(t vpT, dir string, chunk uint32, seg c17Seg, idx int) c17Run {
	plan, _ := json.Marshal(c17ChildPlan{Dir: dir, Chunk: chunk, Seg: seg})
	cmd := osexec.Command(os.Args[0], "-test.run", "^TestVerifC17Child$", "-test.timeout", "120s", "-test.count", "1")
	cmd.Env = append(os.Environ(), "C17_PLAN="+string(plan), "VERIF_STATS_DIR=", "VERIF_FAIL_DIR=", "VERIF_REPLAY=")
	cmd.SysProcAttr = &syscall.SysProcAttr{Setpgid: true, Pdeathsig: syscall.SIGKILL}
	errPath := filepath.Join(dir, fmt.Sprintf("child-%d.stderr", idx))
	errFile, err := os.Create(errPath)
	if err != nil {
		t.Fatalf("VP-INCONCLUSIVE %v", err)
	}
	defer errFile.Close()
	cmd.Stderr = errFile
	stdin, err := cmd.StdinPipe()
	if err != nil {
		t.Fatalf("VP-INCONCLUSIVE %v", err)
	}
	stdout, err := cmd.StdoutPipe()
	if err != nil {
		t.Fatalf("VP-INCONCLUSIVE %v", err)
	}
	// Pdeathsig is delivered when the THREAD that forked the child exits: keep this goroutine on its thread
	// until the child is reaped, so that the Go runtime cannot retire the thread under a live child
	runtime.LockOSThread()
	defer runtime.UnlockOSThread()
	if err := cmd.Start(); err != nil {
		t.Fatalf("VP-INCONCLUSIVE cannot start child: %v", err)
	}
	pgid := cmd.Process.Pid
	reaped := false
	defer func() {
		_ = syscall.Kill(-pgid, syscall.SIGKILL)
		_ = stdin.Close()
		if !reaped {
			_ = cmd.Wait()
		}
	}()
	var run c17Run
	var timer *time.Timer
	watchdog := time.AfterFunc(c17ChildWall+10*time.Second, func() { _ = syscall.Kill(-pgid, syscall.SIGKILL) })
	defer watchdog.Stop()
	sc := bufio.NewScanner(stdout)
	sc.Buffer(make([]byte, 1<<20), 1<<26)
	for sc.Scan() {
		line := sc.Bytes()
		if len(line) == 0 || line[0] != '{' {
			continue // "PASS", "ok ..." of the test framework
		}
		var l c17Line
		if json.Unmarshal(line, &l) != nil {
			continue
		}
		run.lines = append(run.lines, l)
		if l.T == "open" && seg.Kill.At == "timer" && timer == nil {
			timer = time.AfterFunc(time.Duration(seg.Kill.Ms*float64(time.Millisecond)), func() { _ = syscall.Kill(-pgid, syscall.SIGKILL) })
		}
	}
	if timer != nil {
		timer.Stop()
	}
	werr := cmd.Wait()
	reaped = true
	if ee, ok := werr.(*osexec.ExitError); ok {
		if ws, ok := ee.Sys().(syscall.WaitStatus); ok && ws.Signaled() && ws.Signal() == syscall.SIGKILL {
			run.killed = true
		}
		run.exitCode = ee.ExitCode()
	}
	if b, err := os.ReadFile(errPath); err == nil {
		if len(b) > 3000 {
			b = b[len(b)-3000:]
		}
		run.stderr = string(b)
	}
	return run
}

// ---------------------------------------------------------------- parent side: independent binlog parser

type c17DEv struct {
	c17Ev
	Start, End int64 // global offsets; End is the padded end
}

type c17Durable struct {
	Events   []c17DEv
	End      int64 // end of the last whole record
	TornTail bool
	Files    int
	Crc      int
	Rotates  int
	Bounds   map[int64]bool // every record boundary
	// newest file: path, position of its first byte, whether it ends with ROTATE_TO
	LastFile    string
	LastFilePos int64
	LastRotated bool
}

// c17ParseBinlog reads dir/bl*.bin with its own knowledge of the record formats (no fsbinlog code).
func c17ParseBinlog(dir string) (*c17Durable, error) {
	ents, err := os.ReadDir(dir)
	if err != nil {
		return nil, err
	}
	type file struct {
		name string
		pos  int64
		data []byte
	}
	var files []file
	for _, e := range ents {
		if !strings.HasPrefix(e.Name(), "bl.") || !strings.HasSuffix(e.Name(), ".bin") {
			continue
		}
		data, err := os.ReadFile(filepath.Join(dir, e.Name()))
		if err != nil {
			return nil, err
		}
		f := file{name: e.Name(), data: data}
		switch {
		case len(data) >= 4 && binary.LittleEndian.Uint32(data) == 0x044c644b:
			f.pos = 0
		case len(data) >= 36 && binary.LittleEndian.Uint32(data) == 0x04724cd2:
			f.pos = int64(binary.LittleEndian.Uint64(data[8:]))
		case len(data) < 36:
			continue // chunk file whose header is not written yet: holds no events
		default:
			return nil, fmt.Errorf("binlog file %s starts with unknown magic %08x", e.Name(), binary.LittleEndian.Uint32(data))
		}
		files = append(files, f)
	}
	sort.Slice(files, func(i, j int) bool { return files[i].pos < files[j].pos })
	d := &c17Durable{Bounds: map[int64]bool{}, Files: len(files)}
	if len(files) == 0 || files[0].pos != 0 {
		return nil, fmt.Errorf("no first binlog file")
	}
	pos := int64(0)
	for fi, f := range files {
		if f.pos != pos {
			return nil, fmt.Errorf("binlog file %s starts at %d, the previous file ends at %d", f.name, f.pos, pos)
		}
		b := f.data
		rotated := false
		for len(b) > 0 && !rotated {
			size := 0
			if len(b) >= 4 {
				switch binary.LittleEndian.Uint32(b) {
				case 0x044c644b:
					size = 24
				case 0x04476154:
					size = 20
				case 0x04435243:
					size = 20
					d.Crc++
				case 0x04724cd2:
					size = 36
				case 0x04464c72:
					size = 36
					rotated = true
				case c17Magic:
					e, n, err := c17Decode(b)
					if err == nil {
						size = fsbinlog.AddPadding(n)
						if size <= len(b) {
							d.Events = append(d.Events, c17DEv{c17Ev: e, Start: pos, End: pos + int64(size)})
						}
					} else if !errors.Is(err, binlog.ErrorNotEnoughData) {
						return nil, fmt.Errorf("binlog file %s +%d: %v", f.name, len(f.data)-len(b), err)
					}
				default:
					return nil, fmt.Errorf("binlog file %s +%d: unknown magic %08x", f.name, len(f.data)-len(b), binary.LittleEndian.Uint32(b))
				}
			}
			if size == 0 || size > len(b) { // incomplete record
				if fi != len(files)-1 {
					return nil, fmt.Errorf("binlog file %s (not the newest) ends inside a record at +%d", f.name, len(f.data)-len(b))
				}
				d.TornTail = true
				break
			}
			pos += int64(size)
			b = b[size:]
			d.Bounds[pos] = true
			if rotated {
				d.Rotates++
				if len(b) != 0 {
					return nil, fmt.Errorf("binlog file %s has %d bytes behind its ROTATE_TO", f.name, len(b))
				}
			}
		}
		if !rotated && fi != len(files)-1 {
			return nil, fmt.Errorf("binlog file %s has no ROTATE_TO but a newer file exists", f.name)
		}
	}
	d.End = pos
	d.LastFile, d.LastFilePos = filepath.Join(dir, files[len(files)-1].name), files[len(files)-1].pos
	d.LastRotated = d.Rotates == len(files)
	return d, nil
}

// ---------------------------------------------------------------- parent side: reference model and database snapshot

type c17State struct {
	Seqs []uint32
	Acc  map[string]int64
}

func c17Model(evs []c17DEv) c17State {
	s := c17State{Acc: map[string]int64{}}
	for _, e := range evs {
		s.Seqs = append(s.Seqs, e.Seq)
		s.Acc[fmt.Sprint(e.Key)] += int64(e.Delta)
	}
	return s
}

func c17SameState(seqs []uint32, acc map[string]int64, want c17State) error {
	if len(seqs) != len(want.Seqs) {
		return fmt.Errorf("%d rows, %d events expected (rows %v, expected %v)", len(seqs), len(want.Seqs), c17Tail(seqs), c17Tail(want.Seqs))
	}
	for i := range seqs {
		if seqs[i] != want.Seqs[i] {
			return fmt.Errorf("row %d holds seq %d, event %d of the binlog is seq %d", i, seqs[i], i, want.Seqs[i])
		}
	}
	if len(acc) != len(want.Acc) {
		return fmt.Errorf("acc has %d keys, %d expected", len(acc), len(want.Acc))
	}
	for k, v := range want.Acc {
		if acc[k] != v {
			return fmt.Errorf("acc[%s] = %d, expected %d", k, acc[k], v)
		}
	}
	return nil
}

func c17Tail(s []uint32) []uint32 {
	if len(s) > 12 {
		return s[len(s)-12:]
	}
	return s
}

// c17Prefix checks that (seqs, acc, off) is exactly the application of a prefix of the durable events and
// that off marks the end of that prefix: not before the end of its last event, not behind the start of
// the next event, and on a record boundary.
func c17Prefix(what string, seqs []uint32, acc map[string]int64, off int64, d *c17Durable) error {
	n := len(seqs)
	if n <= len(d.Events) && acc == nil {
		acc = c17Model(d.Events[:n]).Acc // readers report only the rows
	}
	if n > len(d.Events) {
		return fmt.Errorf("%s: %d rows but only %d events are in the binlog (rows %v)", what, n, len(d.Events), c17Tail(seqs))
	}
	if err := c17SameState(seqs, acc, c17Model(d.Events[:n])); err != nil {
		return fmt.Errorf("%s: not the application of a prefix of the binlog: %v", what, err)
	}
	lo, hi := int64(0), d.End
	if n > 0 {
		lo = d.Events[n-1].End
	}
	if n < len(d.Events) {
		hi = d.Events[n].Start
	}
	if off < lo || off > hi || (off != 0 && !d.Bounds[off]) {
		return fmt.Errorf("%s: stored binlog offset %d does not mark the end of the %d applied events (must be a record boundary in [%d, %d])", what, off, n, lo, hi)
	}
	return nil
}

// c17Snapshot copies the database files as the dead process left them and reads the copy with a plain
// SQLite connection (which rolls back a hot journal exactly as the next open of the real file would).
func c17Snapshot(t vpT, dir string, idx int) (seqs []uint32, acc map[string]int64, off int64, exists bool, err error) {
	snap := filepath.Join(dir, fmt.Sprintf("snap-%d", idx))
	if err := os.MkdirAll(snap, 0o755); err != nil {
		t.Fatalf("VP-INCONCLUSIVE %v", err)
	}
	defer os.RemoveAll(snap)
	for _, suffix := range []string{"", "-journal", "-wal", "-wal2", "-shm"} {
		b, err := os.ReadFile(filepath.Join(dir, "db"+suffix))
		if err != nil {
			if suffix == "" {
				return nil, nil, 0, false, nil
			}
			continue
		}
		if err := os.WriteFile(filepath.Join(snap, "db"+suffix), b, 0o644); err != nil {
			t.Fatalf("VP-INCONCLUSIVE %v", err)
		}
	}
	conn, err := sqlite0.Open(filepath.Join(snap, "db"), sqlite0.OpenReadWrite)
	if err != nil {
		return nil, nil, 0, true, err
	}
	defer conn.Close()
	query := func(sql string, row func(s *sqlite0.Stmt)) error {
		st, _, err := conn.Prepare([]byte(sql))
		if err != nil {
			return err
		}
		defer st.Close()
		for {
			ok, err := st.Step()
			if err != nil {
				return err
			}
			if !ok {
				return nil
			}
			row(st)
		}
	}
	tables := 0
	if err := query("SELECT count(*) FROM sqlite_master WHERE name IN ('ev','acc','__binlog_offset')", func(s *sqlite0.Stmt) { v, _ := s.ColumnInt64(0); tables = int(v) }); err != nil {
		return nil, nil, 0, true, err
	}
	if tables < 3 {
		return nil, map[string]int64{}, 0, false, nil // killed before the schema was committed
	}
	acc = map[string]int64{}
	if err := query("SELECT seq FROM ev ORDER BY rowid", func(s *sqlite0.Stmt) { v, _ := s.ColumnInt64(0); seqs = append(seqs, uint32(v)) }); err != nil {
		return nil, nil, 0, true, err
	}
	if err := query("SELECT k, total FROM acc", func(s *sqlite0.Stmt) {
		k, _ := s.ColumnInt64(0)
		v, _ := s.ColumnInt64(1)
		acc[fmt.Sprint(k)] = v
	}); err != nil {
		return nil, nil, 0, true, err
	}
	if err := query("SELECT offset FROM __binlog_offset", func(s *sqlite0.Stmt) { off, _ = s.ColumnInt64(0) }); err != nil {
		return nil, nil, 0, true, err
	}
	return seqs, acc, off, true, nil
}

// ---------------------------------------------------------------- the property

type c17Stats struct {
	children, kills                int
	killPoints                     map[string]int
	inflightAtKill, viewsChecked   int
	tornTail, rotations, crcRecs   int
	snapshotsBehind, snapshotsEven int
	rejected, cancelled            int
	ioFaults, ioFaultsInFlight     int
	knownTornTail, tornByParent    int
	knownRotGap                    int
}

func c17Prop(t vpT, c c17Case, dir string, st *c17Stats) (nontrivial bool, classes []string) {
	if st.killPoints == nil {
		st.killPoints = map[string]int{}
	}
	failed := map[uint32]bool{}     // seqs whose callback returned an error
	ackedWait := map[uint32]bool{}  // acknowledged in a WaitCommit segment
	everViewed := map[uint32]bool{} // seqs some reader saw
	var prev *c17Durable
	for i, seg := range c.Segs {
		last := i == len(c.Segs)-1
		if last {
			seg.Kill = c17Kill{At: "none"}
		}
		run := c17Spawn(t, dir, c.Chunk, seg, i)
		st.children++
		if prev != nil && prev.TornTail {
			for _, l := range run.lines {
				if l.T != "openerr" || !strings.Contains(l.Msg, "current position in file is not equal file size") || !vpKnownListed("C17", c17SigTornTail) {
					continue
				}
				// A write torn by the kill: the newest file ends inside an event and fsbinlog's writer refuses to append
				// behind it, OpenEngine fails. Listed, unrepaired finding. Do what an operator would (cut the partial
				// event off) and run the segment again, so that everything behind this point is still checked.
				st.knownTornTail++
				classes = append(classes, "restart-refused-on-torn-tail")
				if err := os.Truncate(prev.LastFile, prev.End-prev.LastFilePos); err != nil {
					t.Fatalf("VP-INCONCLUSIVE %v", err)
				}
				run = c17Spawn(t, dir, c.Chunk, seg, i)
				st.children++
				break
			}
		}
		diag := func() string { return fmt.Sprintf("\nchild stderr tail:\n%s", run.stderr) }
		// --- what the child said
		var open *c17Line
		started := map[uint32]bool{}
		finished := map[uint32]bool{}
		done := false
		rejected, raceErrs, cancelled := 0, 0, 0
		ioEnd := false
		var views []c17Line
		for k := range run.lines {
			l := run.lines[k]
			switch l.T {
			case "open":
				open = &run.lines[k]
			case "start":
				started[l.Seq] = true
			case "ack":
				finished[l.Seq] = true
				if !seg.NoWait {
					ackedWait[l.Seq] = true
				}
			case "fail":
				finished[l.Seq] = true
				failed[l.Seq] = true
			case "rejected": // Do returned the binlog's refusal: like a failed callback, it must leave nothing anywhere
				finished[l.Seq] = true
				failed[l.Seq] = true
				rejected++
			case "cancelled": // context cancelled inside the callback and Do returned the error: a failed write, nothing may remain of it
				finished[l.Seq] = true
				failed[l.Seq] = true
				cancelled++
			case "raceerr":
				finished[l.Seq] = true
				raceErrs++
			case "ioerr":
				finished[l.Seq] = true
			case "ioend":
				ioEnd = true
			case "view":
				views = append(views, l)
			case "done":
				done = true
			case "harness":
				t.Fatalf("VP-INCONCLUSIVE segment %d: child harness error: %s", i, l.Msg)
			case "openerr":
				t.Fatalf("segment %d: the engine does not open after the previous segment (%s): %s%s", i, c17KillName(c, i-1), l.Msg, diag())
			case "doerr":
				t.Fatalf("segment %d: Do of seq %d returned an unexpected error: %s%s", i, l.Seq, l.Msg, diag())
			case "viewerr":
				t.Fatalf("segment %d: View returned an error: %s%s", i, l.Msg, diag())
			case "closeerr":
				t.Fatalf("segment %d: Close returned an error: %s%s", i, l.Msg, diag())
			}
		}
		for seq := range started {
			if failedOp(seg, seq) {
				failed[seq] = true // the callback fails deterministically whether or not the child lived to report it
			}
		}
		// --- restart check against the binlog as the previous process left it
		if open != nil && prev != nil {
			if err := c17SameState(open.Seqs, open.Acc, c17Model(prev.Events)); err != nil {
				t.Fatalf("segment %d: state after restart (previous segment ended by %s) is not the application of every event in the binlog: %v%s", i, c17KillName(c, i-1), err, diag())
			}
			lo := prev.End
			if n := len(prev.Events); n > 0 {
				lo = prev.Events[n-1].End
			} else {
				lo = 0
			}
			if open.Off < lo || open.Off > prev.End {
				t.Fatalf("segment %d: stored binlog offset after restart is %d, the binlog's events end at %d and its records at %d", i, open.Off, lo, prev.End)
			}
		}
		if open != nil && prev == nil && len(open.Seqs) != 0 {
			t.Fatalf("segment %d: fresh engine reports rows %v", i, open.Seqs)
		}
		// --- how it ended
		switch {
		case run.killed:
			st.kills++
			st.killPoints[seg.Kill.At]++
		case ioEnd && run.exitCode == 0:
			st.ioFaults++
			classes = append(classes, "binlog-io-fault")
			unreturned := 0
			for seq := range started {
				if !finished[seq] {
					unreturned++
				}
			}
			if unreturned > 0 {
				st.ioFaultsInFlight++
				classes = append(classes, "binlog-io-fault-with-write-in-flight")
			}
		case done && run.exitCode == 0:
			if seg.Kill.At != "none" && seg.Kill.At != "timer" {
				classes = append(classes, "kill-point-not-reached")
			}
		default:
			t.Fatalf("VP-INCONCLUSIVE segment %d: child ended with exit code %d without reporting done%s", i, run.exitCode, diag())
		}
		inflight := 0
		for seq := range started {
			if !finished[seq] {
				inflight++
			}
		}
		if run.killed && inflight > 0 {
			st.inflightAtKill++
			nontrivial = true
		}
		// --- the binlog as this process left it, read by the harness' own parser
		d, err := c17ParseBinlog(dir)
		if err != nil && prev == nil && open == nil && run.killed && strings.Contains(err.Error(), "no first binlog file") {
			// killed before the harness had even created the binlog: nothing happened in this segment
			classes = append(classes, "killed-before-setup")
			continue
		}
		if err != nil && ioEnd && strings.Contains(err.Error(), "has no ROTATE_TO but a newer file exists") {
			// The injected I/O failure hit between the two halves of a rotation: the next chunk (with its ROTATE_FROM)
			// exists, the write of ROTATE_TO into the old chunk failed. fsbinlog cannot restart on that directory (same
			// state as a kill between those two writes). Only the fault injector reaches it here; not asserted, the
			// case ends. Kill points stay fully asserted.
			return nontrivial, append(classes, "io-fault-mid-rotation(not-asserted)")
		}
		if err != nil && run.killed && strings.Contains(err.Error(), "has no ROTATE_TO but a newer file exists") && vpKnownListed("C17", c17SigRotGap) {
			// The kill landed between the two halves of a rotation (binlogWriter.rotate creates the next chunk and syncs its
			// ROTATE_FROM before it writes ROTATE_TO into the old chunk). Ask the real engine: reopen the directory as the
			// next incarnation would. If it refuses, that is the listed, unrepaired finding; the case ends here.
			probe := c17Spawn(t, dir, c.Chunk, c17Seg{CommitEveryMs: 2, Kill: c17Kill{At: "none"}}, len(c.Segs)+i)
			st.children++
			for _, l := range probe.lines {
				if l.T == "openerr" {
					st.knownRotGap++
					return nontrivial, append(classes, "restart-refused-after-interrupted-rotation")
				}
			}
			t.Fatalf("VP-INCONCLUSIVE segment %d (%s): the harness cannot parse the binlog directory left by a kill inside a rotation (%v) but the engine reopened it%s", i, c17KillName(c, i), err, diag())
		}
		if err != nil {
			t.Fatalf("segment %d (%s): binlog files unreadable for the harness: %v%s", i, c17KillName(c, i), err, diag())
		}
		if d.TornTail {
			st.tornTail++
			classes = append(classes, "torn-tail")
		}
		if prev != nil { // the binlog only grows, by whole records
			if len(d.Events) < len(prev.Events) {
				t.Fatalf("segment %d: binlog shrank from %d to %d events", i, len(prev.Events), len(d.Events))
			}
			for k := range prev.Events {
				if d.Events[k] != prev.Events[k] {
					t.Fatalf("segment %d: binlog event %d changed from %+v to %+v", i, k, prev.Events[k], d.Events[k])
				}
			}
		}
		inD := map[uint32]int{}
		for _, e := range d.Events {
			inD[e.Seq]++
		}
		for seq, n := range inD {
			if n > 1 {
				t.Fatalf("segment %d: seq %d is %d times in the binlog", i, seq, n)
			}
			if failed[seq] {
				t.Fatalf("segment %d: seq %d whose callback failed is in the binlog", i, seq)
			}
		}
		for seq := range ackedWait {
			if inD[seq] == 0 {
				t.Fatalf("segment %d (%s): seq %d was acknowledged in wait-for-commit mode but is not in the binlog", i, c17KillName(c, i), seq)
			}
		}
		// --- readers: every state a reader saw is the application of a prefix of the binlog, and was committed by the binlog before it became visible
		for _, v := range views {
			st.viewsChecked++
			if err := c17Prefix("a reader", v.Seqs, nil, v.Off, d); err != nil {
				t.Fatalf("segment %d: %v", i, err)
			}
			if v.Off > v.Committed {
				t.Fatalf("segment %d: a reader saw the database at binlog offset %d while the binlog had only committed %d", i, v.Off, v.Committed)
			}
			for _, s := range v.Seqs {
				everViewed[s] = true
			}
		}
		for s := range everViewed {
			if inD[s] == 0 {
				t.Fatalf("segment %d: a reader saw seq %d which is not in the binlog", i, s)
			}
			if failed[s] {
				t.Fatalf("segment %d: a reader saw seq %d whose callback failed", i, s)
			}
		}
		// --- the database files as the process left them
		seqs, acc, off, exists, err := c17Snapshot(t, dir, i)
		if err != nil {
			t.Fatalf("segment %d (%s): database left by the process cannot be read: %v", i, c17KillName(c, i), err)
		}
		if exists {
			if err := c17Prefix(fmt.Sprintf("segment %d (%s): database files left by the process", i, c17KillName(c, i)), seqs, acc, off, d); err != nil {
				t.Fatalf("%v%s", err, diag())
			}
			for _, s := range seqs {
				if failed[s] {
					t.Fatalf("segment %d: seq %d whose callback failed is in the database", i, s)
				}
			}
			if len(seqs) < len(d.Events) {
				st.snapshotsBehind++
			} else {
				st.snapshotsEven++
			}
		}
		if !run.killed && done { // clean close: everything is in both
			if (!exists || len(seqs) != len(d.Events)) && seg.CloseAfter == 0 { // a write racing Close may reach the binlog after the last SQLite commit
				t.Fatalf("segment %d: after a clean Close the database has %d rows, the binlog %d events", i, len(seqs), len(d.Events))
			}
			for _, ops := range seg.Writers {
				for _, op := range ops {
					if op.Fail == 0 && inD[op.Seq] == 0 && !failed[op.Seq] && seg.CloseAfter == 0 {
						t.Fatalf("segment %d: seq %d was written and the engine closed cleanly, but it is not in the binlog", i, op.Seq)
					}
				}
			}
		}
		if seg.Tear > 0 && !last {
			if d.TornTail || d.LastRotated {
				classes = append(classes, "tear-skipped")
			} else {
				partial := c17Encode(c17Ev{Seq: 0xfffff000 + uint32(i), Fill: 100})[:1+(seg.Tear-1)%119]
				f, err := os.OpenFile(d.LastFile, os.O_WRONLY|os.O_APPEND, 0)
				if err == nil {
					_, err = f.Write(partial)
					_ = f.Close()
				}
				if err != nil {
					t.Fatalf("VP-INCONCLUSIVE tearing the tail: %v", err)
				}
				d2, err := c17ParseBinlog(dir)
				if err != nil || !d2.TornTail || len(d2.Events) != len(d.Events) || d2.End != d.End {
					t.Fatalf("VP-INCONCLUSIVE harness: torn tail of %d bytes not classified as such (%v)", len(partial), err)
				}
				d = d2
				st.tornByParent++
				classes = append(classes, "tail-torn-by-parent")
			}
		}
		if rejected > 0 {
			st.rejected += rejected
			classes = append(classes, "append-rejected")
			if !run.killed && done {
				classes = append(classes, "append-rejected-then-clean-close")
			}
		}
		if cancelled > 0 {
			st.cancelled += cancelled
			classes = append(classes, "ctx-cancelled-in-callback-do-failed")
		}
		if raceErrs > 0 {
			classes = append(classes, "do-failed-racing-close")
		}
		if seg.CloseAfter > 0 && done {
			classes = append(classes, "close-while-writing")
		}
		prev = d
	}
	st.rotations += prev.Rotates
	st.crcRecs += prev.Crc
	if prev.Rotates > 0 {
		classes = append(classes, "rotation")
	}
	if prev.Crc > 0 {
		classes = append(classes, "crc-record")
	}
	if len(failed) > 0 {
		classes = append(classes, "failed-callback")
	}
	if len(everViewed) > 0 {
		classes = append(classes, "reader-saw-rows")
	}
	for i, seg := range c.Segs {
		if i < len(c.Segs)-1 {
			classes = append(classes, "kill:"+seg.Kill.At)
		}
		if seg.NoWait {
			classes = append(classes, "nowait-segment")
		}
	}
	if nontrivial {
		classes = append(classes, "crash-with-write-in-flight")
	}
	return nontrivial, classes
}

func failedOp(seg c17Seg, seq uint32) bool {
	for _, ops := range seg.Writers {
		for _, op := range ops {
			if op.Seq == seq {
				return op.Fail == 1 || op.Fail == 2 // 3 (context cancelled in the callback) counts as failed only if Do said so
			}
		}
	}
	return false
}

func c17KillName(c c17Case, i int) string {
	if i < 0 || i >= len(c.Segs) {
		return "?"
	}
	if c.Segs[i].IOFail > 0 {
		return fmt.Sprintf("binlog I/O failing from append #%d on, or clean close", c.Segs[i].IOFail)
	}
	k := c.Segs[i].Kill
	switch k.At {
	case "none", "":
		return "clean close"
	case "timer":
		return fmt.Sprintf("SIGKILL %.2f ms after open", k.Ms)
	}
	return fmt.Sprintf("SIGKILL at %s #%d", k.At, k.K)
}

// ---------------------------------------------------------------- generator

var c17KillPoints = []string{"ack-after", "append-before", "append-after", "commit-before", "commit-after", "apply-before", "apply-after", "create-before", "create-after"}

func c17Gen() *rapid.Generator[c17Case] {
	return rapid.Custom(func(t *rapid.T) c17Case {
		var c c17Case
		switch rapid.IntRange(0, 3).Draw(t, "chunkclass") {
		case 0:
			c.Chunk = 0
		case 1:
			c.Chunk = uint32(rapid.IntRange(300, 2000).Draw(t, "chunk"))
		default:
			c.Chunk = uint32(rapid.IntRange(2001, 30000).Draw(t, "chunk"))
		}
		nseg := rapid.IntRange(2, 4).Draw(t, "segments")
		seq := uint32(1)
		for s := 0; s < nseg; s++ {
			seg := c17Seg{
				NoWait:        rapid.IntRange(0, 4).Draw(t, "nowait") == 0,
				CommitEveryMs: rapid.SampledFrom([]int{1, 2, 5, 20, 200}).Draw(t, "commit_every"),
				Readers:       rapid.IntRange(0, 2).Draw(t, "readers"),
			}
			nw := rapid.IntRange(1, 3).Draw(t, "writers")
			totalOps := 0
			for w := 0; w < nw; w++ {
				var ops []c17Op
				n := rapid.IntRange(1, 14).Draw(t, "ops")
				for k := 0; k < n; k++ {
					op := c17Op{Seq: seq, Key: uint8(rapid.IntRange(0, 3).Draw(t, "key")), Delta: int32(rapid.IntRange(-1000, 1000).Draw(t, "delta"))}
					seq++
					switch f := rapid.IntRange(0, 19).Draw(t, "fill"); {
					case f <= 9:
						op.Fill = rapid.IntRange(0, 40).Draw(t, "fillsize")
					case f <= 17:
						op.Fill = rapid.IntRange(41, 1500).Draw(t, "fillsize")
					default:
						op.Fill = rapid.IntRange(1501, 40000).Draw(t, "fillsize")
					}
					switch f := rapid.IntRange(0, 11).Draw(t, "fail"); f {
					case 0:
						op.Fail = 1
					case 1:
						op.Fail = 2
					case 2:
						op.Fail = 3
					}
					if rapid.IntRange(0, 3).Draw(t, "pause?") == 0 {
						op.PauseUs = rapid.IntRange(1, 3000).Draw(t, "pause")
					}
					ops = append(ops, op)
				}
				totalOps += n
				seg.Writers = append(seg.Writers, ops)
			}
			if rapid.IntRange(0, 2).Draw(t, "reject?") == 0 {
				for n := rapid.IntRange(1, 2).Draw(t, "rejects"); n > 0; n-- {
					seg.Reject = append(seg.Reject, rapid.IntRange(1, totalOps).Draw(t, "reject_k"))
				}
			}
			if rapid.IntRange(0, 5).Draw(t, "close_early?") == 0 {
				seg.CloseAfter = rapid.IntRange(1, totalOps).Draw(t, "close_after")
			}
			if s < nseg-1 && rapid.IntRange(0, 7).Draw(t, "tear?") == 0 {
				seg.Tear = rapid.IntRange(1, 119).Draw(t, "tear")
			}
			if s == nseg-1 {
				seg.Kill = c17Kill{At: "none"}
			} else {
				switch k := rapid.IntRange(0, 9).Draw(t, "killclass"); {
				case k <= 1:
					seg.Kill = c17Kill{At: "timer", Ms: float64(rapid.IntRange(0, 40000).Draw(t, "kill_us")) / 1000}
				case k == 2:
					seg.Kill = c17Kill{At: "none"}
				default:
					at := rapid.SampledFrom(c17KillPoints).Draw(t, "kill_at")
					if s > 0 && c.Segs[s-1].Kill.At != "none" && rapid.IntRange(0, 2).Draw(t, "recovery_kill") == 0 {
						at = rapid.SampledFrom([]string{"apply-before", "apply-after", "commit-before", "commit-after"}).Draw(t, "kill_at_recovery") // die while re-reading
					}
					hi := totalOps
					switch {
					case strings.HasPrefix(at, "create"):
						hi = 2
					case strings.HasPrefix(at, "apply"):
						hi = 2
					case strings.HasPrefix(at, "commit"):
						hi = totalOps + 3
					}
					seg.Kill = c17Kill{At: at, K: rapid.IntRange(1, hi).Draw(t, "kill_k")}
				}
			}
			if s < nseg-1 && !seg.NoWait && rapid.IntRange(0, 6).Draw(t, "io_fail?") == 0 {
				seg.IOFail = rapid.IntRange(1, totalOps).Draw(t, "io_fail")
				seg.Kill = c17Kill{At: "none"}
				seg.CloseAfter = 0
			}
			c.Segs = append(c.Segs, seg)
		}
		return c
	})
}

func c17TempDir(t vpT) string {
	dir, err := os.MkdirTemp("", "c17")
	if err != nil {
		t.Fatalf("VP-INCONCLUSIVE %v", err)
	}
	return dir
}

func c17Known(ev *vpEvidence, st, total *c17Stats) {
	if st.knownTornTail > 0 {
		total.knownTornTail += st.knownTornTail
		ev.Known(c17SigTornTail, "a write torn by the kill leaves the newest binlog file ending inside an event; OpenEngine then fails: current position in file is not equal file size")
	}
	if st.knownRotGap > 0 {
		total.knownRotGap += st.knownRotGap
		ev.Known(c17SigRotGap, "a kill between the creation of the next binlog chunk (ROTATE_FROM synced) and the write of ROTATE_TO into the old chunk leaves a directory on which OpenEngine fails")
	}
}

// c17TornTailCase is the deterministic instance of the listed finding torn-tail-refuses-restart (same as
// replays/C17/torn-tail-refuses-restart.json): it runs first in every run of TestVerifC17Crash.
var c17TornTailCase = c17Case{Segs: []c17Seg{
	{CommitEveryMs: 2, Writers: [][]c17Op{{{Seq: 1, Key: 0, Delta: 1, Fill: 10}, {Seq: 2, Key: 1, Delta: 2, Fill: 300}}}, Kill: c17Kill{At: "none"}, Tear: 57},
	{CommitEveryMs: 2, Writers: [][]c17Op{{{Seq: 3, Key: 1, Delta: 5}}}, Kill: c17Kill{At: "none"}},
}}

func TestVerifC17Crash(t *testing.T) {
	if os.Getenv("C17_PLAN") != "" {
		t.Skip("child role")
	}
	ev := vpNewEv(t, "C17", "crash")
	var total c17Stats
	total.killPoints = map[string]int{}
	func() {
		dir := c17TempDir(t)
		defer os.RemoveAll(dir)
		var st c17Stats
		nt, cls := c17Prop(t, c17TornTailCase, dir, &st)
		c17Known(ev, &st, &total)
		total.tornByParent += st.tornByParent
		ev.Case(nt, c17TornTailCase, append(cls, "fixed-torn-tail-instance")...)
	}()
	rapid.Check(t, func(rt *rapid.T) {
		c := c17Gen().Draw(rt, "case")
		vpRunCase(rt, "C17", "crash", c, func() {
			dir := c17TempDir(rt)
			defer os.RemoveAll(dir)
			var st c17Stats
			nt, cls := c17Prop(rt, c, dir, &st)
			total.children += st.children
			total.kills += st.kills
			total.inflightAtKill += st.inflightAtKill
			total.viewsChecked += st.viewsChecked
			total.tornTail += st.tornTail
			total.rotations += st.rotations
			total.crcRecs += st.crcRecs
			total.snapshotsBehind += st.snapshotsBehind
			total.snapshotsEven += st.snapshotsEven
			total.rejected += st.rejected
			total.cancelled += st.cancelled
			total.ioFaults += st.ioFaults
			total.ioFaultsInFlight += st.ioFaultsInFlight
			total.tornByParent += st.tornByParent
			c17Known(ev, &st, &total)
			for k, v := range st.killPoints {
				total.killPoints[k] += v
			}
			ev.Case(nt, c, cls...)
		})
	})
	shard := os.Getenv("VERIF_SHARD")
	ev.Class("fault-points:child-processes", int64(total.children))
	ev.Class("fault-points:kills-delivered", int64(total.kills))
	for k, v := range total.killPoints {
		ev.Class("fault-points:killed-at:"+k, int64(v))
	}
	ev.Class("fault-points:kills-with-unacknowledged-write-in-flight", int64(total.inflightAtKill))
	ev.Class("fault-points:appends-rejected", int64(total.rejected))
	ev.Class("fault-points:ctx-cancelled-in-callback-do-failed", int64(total.cancelled))
	ev.Class("fault-points:binlog-io-faults", int64(total.ioFaults))
	ev.Class("fault-points:binlog-io-faults-with-write-in-flight", int64(total.ioFaultsInFlight))
	ev.Class("fault-points:tails-torn-by-parent", int64(total.tornByParent))
	ev.Class("restarts-refused-on-torn-tail(known)", int64(total.knownTornTail))
	ev.Class("reader-observations-checked", int64(total.viewsChecked))
	ev.Class("db-snapshot-behind-binlog", int64(total.snapshotsBehind))
	ev.Class("db-snapshot-level-with-binlog", int64(total.snapshotsEven))
	ev.Extra("kills_delivered_shard"+shard, total.kills)
	ev.Extra("kill_points_shard"+shard, total.killPoints)
}

func init() {
	vpReplayers["C17/crash"] = func(t vpT, raw json.RawMessage) {
		var c c17Case
		if err := json.Unmarshal(raw, &c); err != nil {
			t.Fatalf("%v", err)
		}
		dir := c17TempDir(t)
		defer os.RemoveAll(dir)
		var st c17Stats
		c17Prop(t, c, dir, &st)
	}
}
