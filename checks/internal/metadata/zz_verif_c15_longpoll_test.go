//go:build verif

package metadata

// C15/longpoll — the journal as the RPC clients see it: plain getJournal answers and long-poll
// answers pushed by Handler.broadcastJournal.
//
// A real Handler (wired to a real rpc.Server exactly like cmd/statshouse-metadata: RawGetJournal as
// the sync handler) sits on a real DBV2. A generated plan drives 2-4 clients (each a real
// tlmetadata.Client that keeps its own position: From = CurrentVersion of its last answer), valid
// creates/edits through DBV2.SaveEntity, and calls of Handler.broadcastJournal at generated points -
// RawEditEntity performs these two steps one after the other with no lock around them, so any other
// request may run in between.
// Oracle per client: every answer is strictly ascending in version, has no version <= the From it
// was asked with, carries events exactly as they were committed and CurrentVersion = its last
// version; hence the concatenation of all answers is strictly ascending (nothing twice). A waiting
// client that is behind must be answered by a broadcast. At quiescence the last version the client
// has seen of every entity is the entity's latest one, for exactly the entities newer than its
// initial position.

import (
	"context"
	"encoding/json"
	"fmt"
	"net"
	"os"
	"sort"
	"testing"
	"time"

	"github.com/VKCOM/statshouse/internal/data_model/gen2/tlmetadata"
	"github.com/VKCOM/statshouse/internal/data_model/gen2/tlstatshouse"
	"github.com/VKCOM/statshouse/internal/format"
	"github.com/VKCOM/tl/pkg/rpc"
	"pgregory.net/rapid"
)

type c15lpOp struct {
	K      string `json:"k"` // get save bcast
	Client int    `json:"client,omitempty"`
	Limit  int64  `json:"limit,omitempty"`
	Ent    int    `json:"ent,omitempty"`    // save: entity slot; a slot beyond the existing ones creates a metric
	Rename bool   `json:"rename,omitempty"` // save: also change the name
	Data   int    `json:"data,omitempty"`
}

type c15lpCase struct {
	Clients int       `json:"clients"`
	Initial int       `json:"initial"`  // entities created before the clients start
	InitPos []int     `json:"init_pos"` // per client: how many of the initial versions it already has
	Ops     []c15lpOp `json:"ops"`
}

const c15lpWait = 30 * time.Second

type c15lpAnswer struct {
	resp tlmetadata.GetJournalResponsenew
	err  error
}

type c15lpClient struct {
	idx       int
	cl        *tlmetadata.Client
	initFrom  int64
	from      int64 // position: CurrentVersion of the last answer
	waiting   bool  // a request is in flight (long poll)
	answers   chan c15lpAnswer
	cancel    context.CancelFunc
	received  []vpmetaEvent
	responses int
	pushed    int // answers that arrived while the client was long-polling
}

type c15lpRun struct {
	t       vpT
	db      *DBV2
	h       *Handler
	clients []*c15lpClient
	ents    []vpmetaEvent         // latest event per entity, creation order
	byVer   map[int64]vpmetaEvent // every committed version
	maxVer  int64
	stats   map[string]int
	nsaves  int
}

// c15lpHandler builds the Handler the way NewHandler does, minus the process-wide regular
// measurement NewHandler registers and never unregisters (thousands of handlers live in one test
// process) and minus the mapping cache bootstrap, which the journal path does not touch.
func c15lpHandler(db *DBV2) *Handler {
	return &Handler{
		db:                db,
		getJournalClients: &GetJournalClients{host: "vp", clients: map[rpc.LongpollHandle]tlmetadata.GetJournalnew{}},
		getMappingClients: &GetMappingClients{host: "vp", clients: map[rpc.LongpollHandle]tlmetadata.GetNewMappings{}},
		mappingCache:      [mappingCacheSize]tlstatshouse.Mapping{},
		log:               func(s string, args ...interface{}) {},
		host:              "vp",
	}
}

func (r *c15lpRun) registered() int {
	r.h.getJournalClients.mx.Lock()
	defer r.h.getJournalClients.mx.Unlock()
	return len(r.h.getJournalClients.clients)
}

func (r *c15lpRun) journalAfter(from int64) []vpmetaEvent {
	var out []vpmetaEvent
	for _, e := range r.ents {
		if e.Version > from {
			e.Metadata = ""
			out = append(out, e)
		}
	}
	sort.Slice(out, func(i, j int) bool { return out[i].Version < out[j].Version })
	return out
}

// take checks one answer against the request it belongs to and advances the client.
func (r *c15lpRun) take(c *c15lpClient, a c15lpAnswer, how string) {
	t := r.t
	c.waiting = false
	if a.err != nil {
		vpmetaFail(t, "client %d (%s from %d): rpc error %v", c.idx, how, c.from, a.err)
	}
	prev := c.from
	for i, ev := range a.resp.Events {
		e := vpmetaFromTL(ev)
		if e.Version <= prev {
			what := "an event out of ascending order"
			if i == 0 {
				what = "a version it already has"
			}
			t.Fatalf("client %d asked for the journal after version %d (%s) and received %s: event %d = %+v; whole answer %s", c.idx, c.from, how, what, i, e, c15lpVersions(a.resp.Events))
		}
		want, ok := r.byVer[e.Version]
		want.Metadata = ""
		if !ok || want != e {
			t.Fatalf("client %d (%s from %d) received %+v, which was never committed like that (committed: %+v, known %v)", c.idx, how, c.from, e, want, ok)
		}
		prev = e.Version
		c.received = append(c.received, e)
	}
	if len(a.resp.Events) > 0 && a.resp.CurrentVersion != prev {
		t.Fatalf("client %d (%s from %d): CurrentVersion %d, last event version %d", c.idx, how, c.from, a.resp.CurrentVersion, prev)
	}
	if len(a.resp.Events) == 0 && a.resp.CurrentVersion != c.from {
		t.Fatalf("client %d (%s from %d): empty answer with CurrentVersion %d", c.idx, how, c.from, a.resp.CurrentVersion)
	}
	c.from = a.resp.CurrentVersion
	c.responses++
}

func c15lpVersions(evs []tlmetadata.Event) string {
	s := "["
	for i, e := range evs {
		if i > 0 {
			s += " "
		}
		s += fmt.Sprintf("%d:v%d", e.Id, e.Version)
	}
	return s + "]"
}

func (r *c15lpRun) send(c *c15lpClient, limit int64, returnIfEmpty bool) {
	args := tlmetadata.GetJournalnew{From: c.from, Limit: limit}
	args.SetReturnIfEmpty(returnIfEmpty)
	ctx, cancel := context.WithCancel(context.Background())
	c.cancel = cancel
	c.waiting = true
	go func() {
		var resp tlmetadata.GetJournalResponsenew
		err := c.cl.GetJournalnew(ctx, args, nil, &resp)
		c.answers <- c15lpAnswer{resp, err}
	}()
}

// get: the client asks from its position; the call returns when the answer is there or the request
// has been parked as a long poll by the handler.
func (r *c15lpRun) get(c *c15lpClient, limit int64) {
	if c.waiting {
		return
	}
	before := r.registered()
	r.send(c, limit, false)
	deadline := time.Now().Add(c15lpWait)
	for {
		select {
		case a := <-c.answers:
			r.take(c, a, "getJournal")
			r.stats["plain-answer"]++
			return
		default:
		}
		if r.registered() > before {
			r.stats["long-poll-parked"]++
			return
		}
		if time.Now().After(deadline) {
			vpmetaFail(r.t, "VP-INCONCLUSIVE client %d: request neither answered nor parked within %v", c.idx, c15lpWait)
		}
		time.Sleep(100 * time.Microsecond)
	}
}

func (r *c15lpRun) save(op c15lpOp) {
	t := r.t
	r.nsaves++
	data := fmt.Sprintf(`{"n":%d,"d":%d}`, r.nsaves, op.Data)
	var ev tlmetadata.Event
	var err error
	if len(r.ents) == 0 || op.Ent >= len(r.ents) {
		ev, err = r.db.SaveEntity(vpmetaCtx, fmt.Sprintf("m%d", len(r.ents)), 0, 0, data, true, 0, format.MetricEvent, "")
		if err == nil {
			r.ents = append(r.ents, vpmetaFromTL(ev))
		}
	} else {
		cur := r.ents[op.Ent]
		name := cur.Name
		if op.Rename {
			name = fmt.Sprintf("m%d_r%d", op.Ent, r.nsaves)
		}
		ev, err = r.db.SaveEntity(vpmetaCtx, name, cur.ID, cur.Version, data, false, 0, format.MetricEvent, "")
		if err == nil {
			r.ents[op.Ent] = vpmetaFromTL(ev)
		}
	}
	if err != nil {
		vpmetaFail(t, "SaveEntity of a valid request failed: %v", err)
	}
	e := vpmetaFromTL(ev)
	if e.Version <= r.maxVer {
		t.Fatalf("SaveEntity assigned version %d, not above %d", e.Version, r.maxVer)
	}
	r.maxVer = e.Version
	r.byVer[e.Version] = e
}

// broadcast runs Handler.broadcastJournal (the second half of RawEditEntity) and collects what it
// pushed: every waiting client that is behind must get an answer.
func (r *c15lpRun) broadcast() {
	positions := map[int64]bool{}
	behind := 0
	for _, c := range r.clients {
		if c.waiting {
			positions[c.from] = true
			if c.from < r.maxVer {
				behind++
			}
		}
	}
	if len(positions) >= 2 {
		r.stats["broadcast-with-waiters-at-different-positions"]++
	}
	if len(positions) >= 2 && behind >= 1 {
		r.stats["broadcast-answers-some-of-different-positions"]++
	}
	r.h.broadcastJournal()
	for _, c := range r.clients {
		if !c.waiting || c.from >= r.maxVer {
			continue
		}
		select {
		case a := <-c.answers:
			c.pushed++
			r.take(c, a, "long poll")
			r.stats["pushed-answer"]++
		case <-time.After(c15lpWait):
			r.t.Fatalf("client %d long-polls from version %d, the journal is at %d, broadcastJournal ran, and no answer arrived within %v", c.idx, c.from, r.maxVer, c15lpWait)
		}
	}
	r.drain()
}

// drain picks up answers nobody was waiting for (they are checked like any other).
func (r *c15lpRun) drain() {
	for _, c := range r.clients {
		if !c.waiting {
			continue
		}
		select {
		case a := <-c.answers:
			c.pushed++
			r.take(c, a, "long poll (unexpected push)")
			r.stats["unexpected-push"]++
		default:
		}
	}
}

func c15lpProp(t vpT, c c15lpCase) (nontrivial bool, classes []string) {
	root := vpmetaMkRoot(t)
	defer os.RemoveAll(root)
	env := vpmetaCreate(t, root, "db", Options{MaxBudget: 10, StepSec: 60, BudgetBonus: 1, GlobalBudget: 10}, 0, &vpmetaClock{t: 1_700_000_000})
	defer env.CloseQuiet()
	h := c15lpHandler(env.db)
	proxy := ProxyHandler{}
	sh := tlmetadata.Handler{RawGetJournalnew: proxy.HandleProxy("getJournal", h.RawGetJournal)}
	ah := tlmetadata.Handler{RawEditEntitynew: proxy.HandleProxy("editEntity", h.RawEditEntity)}
	server := rpc.NewServer(rpc.ServerWithHandler(ah.Handle), rpc.ServerWithSyncHandler(sh.Handle), rpc.ServerWithLogf(func(string, ...any) {}))
	ln, err := net.Listen("tcp4", "127.0.0.1:0")
	if err != nil {
		vpmetaFail(t, "VP-INCONCLUSIVE listen: %v", err)
	}
	go func() { _ = server.Serve(ln) }()
	defer server.Close()

	r := &c15lpRun{t: t, db: env.db, h: h, byVer: map[int64]vpmetaEvent{}, stats: map[string]int{}}
	for i := 0; i < c.Initial; i++ {
		r.save(c15lpOp{Ent: 1 << 30})
	}
	var rpcClients []rpc.Client
	defer func() {
		for _, cl := range r.clients {
			if cl.cancel != nil {
				cl.cancel()
			}
		}
		for _, rc := range rpcClients {
			_ = rc.Close()
		}
	}()
	for i := 0; i < c.Clients; i++ {
		rc := rpc.NewClient(rpc.ClientWithProtocolVersion(rpc.LatestProtocolVersion), rpc.ClientWithLogf(func(string, ...any) {}))
		rpcClients = append(rpcClients, rc)
		cl := &c15lpClient{idx: i, cl: &tlmetadata.Client{Client: rc, Network: "tcp4", Address: ln.Addr().String()}, answers: make(chan c15lpAnswer, 4)}
		if i < len(c.InitPos) && c.Initial > 0 {
			if k := c.InitPos[i] % (c.Initial + 1); k > 0 {
				cl.initFrom = r.journalAfter(0)[k-1].Version
			}
		}
		cl.from = cl.initFrom
		r.clients = append(r.clients, cl)
	}
	for _, op := range c.Ops {
		switch op.K {
		case "get":
			limit := op.Limit
			if limit < 1 {
				limit = 100
			}
			r.get(r.clients[op.Client%len(r.clients)], limit)
		case "save":
			r.save(op)
		case "bcast":
			r.broadcast()
		default:
			t.Fatalf("harness: unknown op %q", op.K)
		}
		r.drain()
	}
	// quiescence: the broadcast that every edit is followed by, then everybody reads to the end
	r.broadcast()
	for _, cl := range r.clients {
		for i := 0; !cl.waiting; i++ {
			r.send(cl, 100, true)
			n := 0
			select {
			case a := <-cl.answers:
				n = len(a.resp.Events)
				r.take(cl, a, "final getJournal")
			case <-time.After(c15lpWait):
				vpmetaFail(t, "VP-INCONCLUSIVE client %d: final getJournal not answered within %v", cl.idx, c15lpWait)
			}
			if n == 0 {
				break
			}
			if i > 1000 {
				t.Fatalf("client %d: reading the journal to the end does not terminate", cl.idx)
			}
		}
		if cl.waiting && cl.from < r.maxVer {
			t.Fatalf("harness: client %d still waits from %d below %d after the final broadcast", cl.idx, cl.from, r.maxVer)
		}
		last := map[int64]vpmetaEvent{}
		for _, e := range cl.received {
			last[e.ID] = e
		}
		for _, e := range r.ents {
			e.Metadata = ""
			got, ok := last[e.ID]
			if e.Version > cl.initFrom {
				if !ok || got != e {
					t.Fatalf("client %d started after version %d and read the journal to the end (position %d): entity %d is at %+v, the last the client received is %+v (received %v); all it received: %+v", cl.idx, cl.initFrom, cl.from, e.ID, e, got, ok, cl.received)
				}
			} else if ok {
				t.Fatalf("client %d started after version %d and received %+v", cl.idx, cl.initFrom, got)
			}
		}
		if cl.pushed > 0 {
			r.stats["client-answered-by-broadcast"]++
		}
	}
	for k := range r.stats {
		classes = append(classes, k)
	}
	sort.Strings(classes)
	nontrivial = r.stats["broadcast-with-waiters-at-different-positions"] > 0
	return nontrivial, classes
}

func c15lpGen() *rapid.Generator[c15lpCase] {
	return rapid.Custom(func(t *rapid.T) c15lpCase {
		c := c15lpCase{Clients: rapid.IntRange(2, 4).Draw(t, "clients"), Initial: rapid.IntRange(0, 3).Draw(t, "initial")}
		for i := 0; i < c.Clients; i++ {
			c.InitPos = append(c.InitPos, rapid.IntRange(0, 3).Draw(t, "pos"))
		}
		n := rapid.IntRange(4, 24).Draw(t, "n")
		ents := c.Initial
		for i := 0; i < n; i++ {
			w := rapid.IntRange(0, 99).Draw(t, "kind")
			switch {
			case w < 55:
				c.Ops = append(c.Ops, c15lpOp{K: "get", Client: rapid.IntRange(0, c.Clients-1).Draw(t, "client"), Limit: rapid.SampledFrom([]int64{1, 2, 100, 100}).Draw(t, "limit")})
			case w < 90:
				op := c15lpOp{K: "save", Ent: rapid.IntRange(0, ents).Draw(t, "ent"), Rename: rapid.IntRange(0, 3).Draw(t, "rename") == 0, Data: rapid.IntRange(0, 3).Draw(t, "data")}
				if op.Ent >= ents {
					ents++
				}
				c.Ops = append(c.Ops, op)
			default:
				c.Ops = append(c.Ops, c15lpOp{K: "bcast"})
			}
		}
		return c
	})
}

func TestVerifC15Longpoll(t *testing.T) {
	ev := vpNewEv(t, "C15", "longpoll")
	rapid.Check(t, func(rt *rapid.T) {
		c := c15lpGen().Draw(rt, "case")
		vpRunCase(rt, "C15", "longpoll", c, func() {
			nt, cls := c15lpProp(rt, c)
			ev.Case(nt, c, cls...)
		})
	})
}

func init() {
	vpReplayers["C15/longpoll"] = func(t vpT, raw json.RawMessage) {
		var c c15lpCase
		if err := json.Unmarshal(raw, &c); err != nil {
			t.Fatalf("%v", err)
		}
		c15lpProp(t, c)
	}
}
