//go:build verif

package metadata

// C19 — tag mappings form a stable bijection and creation obeys flood limits.
//
// A generated history of GetOrCreateMapping / PutMapping / deleteMappingsByIdBatched / ResetFlood /
// clock steps / restarts runs against a DBV2 with tiny budgets, in lock step with a model written
// from the statement:
//   * key <-> id maps (PutMapping has REPLACE semantics, the only operations that change or remove
//     a mapping are put and delete), compared with the whole table and with by-id / by-value
//     lookups after every operation;
//   * get-or-create of a mapped key returns its id; a created id is positive, unmapped and was
//     never deleted before;
//   * once an id above the global budget has been handed out, every metric has a token bucket:
//     capacity MaxBudget (or the value of a ResetFlood), +BudgetBonus per elapsed step up to the
//     capacity, -1 per created mapping. The bucket is an UPPER bound of what the metric may still
//     create; a creation with an empty bucket is a violation, and so is any answer other than
//     created / flood-limit error for an unmapped key.

import (
	"encoding/json"
	"fmt"
	"os"
	"sort"
	"testing"

	"pgregory.net/rapid"
)

type c19Op struct {
	K      string  `json:"k"` // get put del reset clock reopen
	Metric int     `json:"metric,omitempty"`
	Key    int     `json:"key,omitempty"`
	Keys   []int   `json:"keys,omitempty"`
	IDs    []int32 `json:"ids,omitempty"`
	Limit  int64   `json:"limit,omitempty"`
	Dt     int64   `json:"dt,omitempty"`
}

type c19Case struct {
	MaxBudget int64   `json:"max_budget"`
	Bonus     int64   `json:"bonus"`
	Step      uint32  `json:"step"`
	Global    int64   `json:"global"`
	T0        int64   `json:"t0"`
	Ops       []c19Op `json:"ops"`
}

var (
	c19Metrics = []string{"m0", "m1", "ns:m2"}
	c19Keys    = func() []string {
		ks := []string{"значение", "a b", "\xfe\xff", "K"}
		for i := 0; i < 14; i++ {
			ks = append(ks, fmt.Sprintf("k%d", i))
		}
		return ks
	}()
)

type c19Bucket struct {
	tokens int64 // upper bound of the budget left
	step   int64 // step index at which tokens was last brought up to date
	exact  bool  // tokens is the exact budget (known since a ResetFlood), not only an upper bound
	since  int   // op index where the current accounting window started (for messages)
	made   int   // mappings created in the window
}

type c19Model struct {
	c         c19Case
	keyToID   map[string]int32
	idToKey   map[int32]string
	deleted   map[int32]bool // ids whose mapping was removed at some point
	exhausted bool           // an id above the global budget has been handed out
	buckets   map[string]*c19Bucket
	lastReset map[string]int64
	stats     map[string]int
}

func (m *c19Model) stepOf(unix int64) int64 { return unix / int64(m.c.Step) }

// capacity the statement allows a metric to hold when nothing more precise is known
func (m *c19Model) looseCap(metric string) int64 {
	if r := m.lastReset[metric]; r > m.c.MaxBudget {
		return r
	}
	return m.c.MaxBudget
}

func (m *c19Model) bucket(metric string, now int64, opIdx int) *c19Bucket {
	b := m.buckets[metric]
	if b == nil {
		b = &c19Bucket{tokens: m.looseCap(metric), step: m.stepOf(now), since: opIdx}
		m.buckets[metric] = b
	}
	s := m.stepOf(now)
	if s > b.step {
		if b.tokens <= m.c.MaxBudget { // a budget above the maximum (after a reset) is not refilled
			b.tokens += m.c.Bonus * (s - b.step)
			if b.tokens > m.c.MaxBudget {
				b.tokens = m.c.MaxBudget
			}
			if m.c.Bonus > 0 {
				m.stats["bonus-step-elapsed"]++
			}
		}
		b.step = s
	}
	return b
}

func (m *c19Model) put(k string, id int32) {
	if oldKey, ok := m.idToKey[id]; ok && oldKey != k {
		delete(m.keyToID, oldKey)
		m.stats["put-replaced-id"]++
	}
	if oldID, ok := m.keyToID[k]; ok && oldID != id {
		delete(m.idToKey, oldID)
		m.deleted[oldID] = true
		m.stats["put-replaced-key"]++
	}
	m.idToKey[id] = k
	m.keyToID[k] = id
}

func (m *c19Model) pairs() []vpmetaPair {
	out := make([]vpmetaPair, 0, len(m.idToKey))
	for id, k := range m.idToKey {
		out = append(out, vpmetaPair{ID: id, Key: k})
	}
	sort.Slice(out, func(i, j int) bool { return out[i].ID < out[j].ID })
	return out
}

func c19Invariant(t vpT, db *DBV2, m *c19Model, step int, op c19Op) {
	got, maxID := vpmetaAllMappings(t, db, 3)
	want := m.pairs()
	if len(got) != len(want) {
		t.Fatalf("after op %d %+v: mapping table %v, expected %v", step, op, got, want)
	}
	for i := range want {
		if got[i] != want[i] {
			t.Fatalf("after op %d %+v: mapping table %v, expected %v", step, op, got, want)
		}
	}
	if len(want) > 0 && maxID < want[len(want)-1].ID {
		t.Fatalf("after op %d: GetNewMappings reports last id %d below the existing id %d", step, maxID, want[len(want)-1].ID)
	}
	for _, k := range c19Keys {
		id, notExists, err := db.GetMappingByValue(vpmetaCtx, k)
		if err != nil {
			t.Fatalf("GetMappingByValue(%q): %v", k, err)
		}
		wid, ok := m.keyToID[k]
		if ok == notExists || (ok && id != wid) {
			t.Fatalf("after op %d %+v: GetMappingByValue(%q) = (%d, notExists %v), expected (%d, mapped %v)", step, op, k, id, notExists, wid, ok)
		}
	}
	ids := make([]int32, 0, len(m.idToKey)+len(m.deleted))
	for id := range m.idToKey {
		ids = append(ids, id)
	}
	for id := range m.deleted {
		if _, ok := m.idToKey[id]; !ok {
			ids = append(ids, id)
		}
	}
	for _, id := range ids {
		k, ok, err := db.GetMappingByID(vpmetaCtx, id)
		if err != nil {
			t.Fatalf("GetMappingByID(%d): %v", id, err)
		}
		wk, wok := m.idToKey[id]
		if ok != wok || (ok && k != wk) {
			t.Fatalf("after op %d %+v: GetMappingByID(%d) = (%q, %v), expected (%q, %v)", step, op, id, k, ok, wk, wok)
		}
	}
}

func c19Prop(t vpT, c c19Case) (nontrivial bool, classes []string) {
	root := vpmetaMkRoot(t)
	defer os.RemoveAll(root)
	clock := &vpmetaClock{t: c.T0}
	env := vpmetaCreate(t, root, "db", Options{MaxBudget: c.MaxBudget, StepSec: c.Step, BudgetBonus: c.Bonus, GlobalBudget: c.Global}, 0, clock)
	defer env.CloseQuiet()
	m := &c19Model{c: c, keyToID: map[string]int32{}, idToKey: map[int32]string{}, deleted: map[int32]bool{}, buckets: map[string]*c19Bucket{}, lastReset: map[string]int64{}, stats: map[string]int{}}
	for i, op := range c.Ops {
		db := env.db
		switch op.K {
		case "get":
			metric := c19Metrics[op.Metric%len(c19Metrics)]
			key := c19Keys[op.Key%len(c19Keys)]
			resp, err := db.GetOrCreateMapping(vpmetaCtx, metric, key)
			if err != nil {
				t.Fatalf("op %d: GetOrCreateMapping(%q,%q): %v", i, metric, key, err)
			}
			if wid, mapped := m.keyToID[key]; mapped {
				g, ok := resp.AsGetMappingResponse()
				if !ok || g.Id != wid {
					t.Fatalf("op %d: get-or-create of %q, mapped to %d, answered %+v", i, key, wid, resp)
				}
				m.stats["get-existing"]++
				break
			}
			if cr, ok := resp.AsCreated(); ok {
				if cr.Id <= 0 {
					t.Fatalf("op %d: created mapping %q got non-positive id %d", i, key, cr.Id)
				}
				if k2, used := m.idToKey[cr.Id]; used {
					t.Fatalf("op %d: created mapping %q got id %d, which belongs to %q", i, key, cr.Id, k2)
				}
				if m.deleted[cr.Id] {
					t.Fatalf("op %d: created mapping %q got id %d, the id of a deleted mapping", i, key, cr.Id)
				}
				if m.exhausted {
					b := m.bucket(metric, clock.Unix(), i)
					if b.tokens < 1 {
						t.Fatalf("op %d: metric %q created mapping %q (id %d) with no budget left: since op %d it had created %d mappings; budget then at most %d, bonus %d per %ds step, max %d, global budget %d exhausted",
							i, metric, key, cr.Id, b.since, b.made, b.tokens+int64(b.made), c.Bonus, c.Step, c.MaxBudget, c.Global)
					}
					b.tokens--
					b.made++
					m.stats["created-after-global-budget"]++
				} else {
					m.stats["created-within-global-budget"]++
				}
				m.put(key, cr.Id)
				if int64(cr.Id) > c.Global && !m.exhausted {
					m.exhausted = true
					m.buckets = map[string]*c19Bucket{} // from here on every bucket starts from what the statement allows at most
				}
			} else if resp.IsFloodLimitError() {
				m.stats["flood-error"]++
				if m.exhausted {
					if b := m.bucket(metric, clock.Unix(), i); b.exact && b.tokens >= 1 {
						m.stats["denied-with-budget-left(not asserted)"]++
					}
				} else {
					m.stats["flood-error-before-global-exhausted(not asserted)"]++
				}
			} else {
				t.Fatalf("op %d: get-or-create of the unmapped key %q answered %+v, expected created or flood-limit error", i, key, resp)
			}
		case "put":
			n := len(op.Keys)
			if len(op.IDs) < n {
				n = len(op.IDs)
			}
			ks := make([]string, n)
			for j := range ks {
				ks[j] = c19Keys[op.Keys[j]%len(c19Keys)]
			}
			if err := db.PutMapping(vpmetaCtx, ks, op.IDs[:n]); err != nil {
				t.Fatalf("op %d: PutMapping: %v", i, err)
			}
			for j := range ks {
				m.put(ks[j], op.IDs[j])
			}
			m.stats["put"]++
		case "del":
			present := 0
			seen := map[int32]bool{}
			for _, id := range op.IDs {
				if _, ok := m.idToKey[id]; ok && !seen[id] {
					present++
				}
				seen[id] = true
			}
			n, err := db.deleteMappingsByIdBatched(vpmetaCtx, op.IDs)
			if err != nil {
				t.Fatalf("op %d: delete: %v", i, err)
			}
			if int(n) != present {
				t.Fatalf("op %d: delete of %v reports %d present mappings, expected %d", i, op.IDs, n, present)
			}
			for id := range seen {
				if k, ok := m.idToKey[id]; ok {
					delete(m.idToKey, id)
					delete(m.keyToID, k)
					m.deleted[id] = true
				}
			}
			if present > 0 {
				m.stats["deleted"]++
			}
		case "reset":
			metric := c19Metrics[op.Metric%len(c19Metrics)]
			_, after, err := db.ResetFlood(vpmetaCtx, metric, op.Limit)
			if err != nil {
				t.Fatalf("op %d: ResetFlood: %v", i, err)
			}
			want := op.Limit
			if want <= 0 {
				want = c.MaxBudget
			} else if want > maxResetLimit {
				want = maxResetLimit
			}
			if after != want {
				t.Fatalf("op %d: ResetFlood(%q,%d) reports budget %d, expected %d", i, metric, op.Limit, after, want)
			}
			m.lastReset[metric] = want
			if m.exhausted {
				m.buckets[metric] = &c19Bucket{tokens: want, step: m.stepOf(clock.Unix()), exact: true, since: i}
			}
			m.stats["reset"]++
			if want < c.MaxBudget {
				m.stats["reset-below-max"]++
			}
			if want > c.MaxBudget {
				m.stats["reset-above-max"]++
			}
		case "clock":
			clock.Advance(op.Dt)
		case "reopen":
			env.Reopen(t)
			m.stats["restart"]++
		default:
			t.Fatalf("harness: unknown op %q", op.K)
		}
		c19Invariant(t, env.db, m, i, op)
	}
	env.Close(t)
	for k := range m.stats {
		classes = append(classes, k)
	}
	sort.Strings(classes)
	if m.exhausted {
		classes = append(classes, "global-budget-exhausted")
	}
	nontrivial = m.stats["flood-error"] > 0 && (m.stats["deleted"] > 0 || m.stats["put"] > 0)
	return nontrivial, classes
}

func c19Gen() *rapid.Generator[c19Case] {
	return rapid.Custom(func(t *rapid.T) c19Case {
		c := c19Case{
			MaxBudget: rapid.Int64Range(1, 3).Draw(t, "max_budget"),
			Bonus:     rapid.Int64Range(0, 2).Draw(t, "bonus"),
			Step:      rapid.SampledFrom([]uint32{10, 60}).Draw(t, "step"),
			Global:    rapid.Int64Range(0, 4).Draw(t, "global"),
			T0:        rapid.Int64Range(1_700_000_000, 1_700_000_100).Draw(t, "t0"),
		}
		n := rapid.IntRange(4, 40).Draw(t, "n")
		for i := 0; i < n; i++ {
			w := rapid.IntRange(0, 99).Draw(t, "kind")
			switch {
			case w < 55:
				c.Ops = append(c.Ops, c19Op{K: "get", Metric: rapid.IntRange(0, 2).Draw(t, "metric"), Key: rapid.IntRange(0, len(c19Keys)-1).Draw(t, "key")})
			case w < 62:
				k := rapid.IntRange(1, 3).Draw(t, "n")
				c.Ops = append(c.Ops, c19Op{K: "put", Keys: rapid.SliceOfN(rapid.IntRange(0, len(c19Keys)-1), k, k).Draw(t, "keys"), IDs: rapid.SliceOfN(rapid.Int32Range(1, 16), k, k).Draw(t, "ids")})
			case w < 72:
				c.Ops = append(c.Ops, c19Op{K: "del", IDs: rapid.SliceOfN(rapid.Int32Range(1, 16), 1, 3).Draw(t, "ids")})
			case w < 80:
				c.Ops = append(c.Ops, c19Op{K: "reset", Metric: rapid.IntRange(0, 2).Draw(t, "metric"), Limit: rapid.SampledFrom([]int64{0, -3, 1, 1, 2, 3, 5, 20000}).Draw(t, "limit")})
			case w < 95:
				c.Ops = append(c.Ops, c19Op{K: "clock", Dt: rapid.SampledFrom([]int64{1, 3, int64(c.Step) / 2, int64(c.Step), 2*int64(c.Step) + 1}).Draw(t, "dt")})
			default:
				c.Ops = append(c.Ops, c19Op{K: "reopen"})
			}
		}
		return c
	})
}

func TestVerifC19Mappings(t *testing.T) {
	ev := vpNewEv(t, "C19", "mappings")
	rapid.Check(t, func(rt *rapid.T) {
		c := c19Gen().Draw(rt, "case")
		vpRunCase(rt, "C19", "mappings", c, func() {
			nt, cls := c19Prop(rt, c)
			ev.Case(nt, c, cls...)
		})
	})
}

func init() {
	vpReplayers["C19/mappings"] = func(t vpT, raw json.RawMessage) {
		var c c19Case
		if err := json.Unmarshal(raw, &c); err != nil {
			t.Fatalf("%v", err)
		}
		c19Prop(t, c)
	}
}
