//go:build verif

package metadata

// C15 — metadata edits are versioned and optimistic-concurrency safe.
//
// A generated history of create / edit / rename / delete-mark / undelete requests (plus racing
// requests from several goroutines) is run against a DBV2 and, in lock step, against a reference
// model written from the property statement: an edit succeeds iff it names the current version and
// the naming rules hold; every success gets a version greater than every earlier one; of several
// valid requests racing from one version exactly one succeeds; the journal, read in pages, returns
// each entity once with its latest version, ascending; the per-entity history matches the model.

import (
	"context"
	"encoding/json"
	"errors"
	"fmt"
	"os"
	"sort"
	"strings"
	"sync"
	"testing"

	"github.com/VKCOM/statshouse/internal/format"
	"pgregory.net/rapid"
)

type c15Racer struct {
	Name int  `json:"name,omitempty"` // 0 keeps the name, i picks c15RaceNames[i-1]
	Data int  `json:"data,omitempty"`
	Del  bool `json:"del,omitempty"`
}

type c15Op struct {
	K      string     `json:"k"` // create edit predef race racecreate journal reopen clock
	Ent    int        `json:"ent,omitempty"`
	Typ    int        `json:"typ,omitempty"`
	Name   int        `json:"name,omitempty"`
	NS     int        `json:"ns,omitempty"`
	Data   int        `json:"data,omitempty"`
	Ver    int        `json:"ver,omitempty"` // 0 current, 1 an older version of the entity, 2 zero, 3 current version of another entity, 4 a future version
	Del    uint32     `json:"del,omitempty"`
	Meta   int        `json:"meta,omitempty"`
	NegID  int        `json:"neg_id,omitempty"`
	Racers []c15Racer `json:"racers,omitempty"`
	Since  int        `json:"since,omitempty"`
	Page   int64      `json:"page,omitempty"`
	Dt     int64      `json:"dt,omitempty"`
	Big    int        `json:"big,omitempty"`    // create/edit: payload size class (0 small, else c15BigSizes[Big-1] bytes)
	Trip   int        `json:"trip,omitempty"`   // cancel: the request context is cancelled at its Trip-th poll
	Create bool       `json:"create,omitempty"` // cancel: the cancelled request is a create
}

type c15Case struct {
	T0  int64   `json:"t0"`
	Ops []c15Op `json:"ops"`
}

var (
	c15Types     = []int32{format.MetricEvent, format.DashboardEvent, format.MetricsGroupEvent, format.PromConfigEvent, format.NamespaceEvent}
	c15Names     = []string{"a", "b", "c", "d"}
	c15NSNames   = []string{"n1", "n2"}
	c15RaceNames = []string{"ra", "rb", "rc"}
	c15Datas     = []string{"{}", `{"v":1}`, `{"v":2}`, `{"v":3}`, `{"v":4}`, `{"v":5}`}
	c15Metas     = []string{"", `{"user":"u1"}`, `{"user":"u2"}`}
	// predefined (negative id) entities as the real callers use them: fixed name and type per id
	c15Predef = []struct {
		id   int64
		typ  int32
		name string
	}{{-1, format.NamespaceEvent, "__default"}, {-2, format.MetricsGroupEvent, "__builtin_group"}, {-3, format.PromConfigEvent, "prom-config"}, {-4, format.NamespaceEvent, "__other"}}
)

// payload sizes around the journal's per-page byte budget (about 1 MiB; a request may carry up to 1 MiB):
// a quarter, a third, a half, two thirds, just below the budget
var c15BigSizes = []int{262_000, 349_000, 524_000, 700_000, 1_040_000}

var c15BigCache = map[int]string{}

func c15DataOf(op c15Op) string {
	if op.Big <= 0 {
		return c15Datas[op.Data%len(c15Datas)]
	}
	n := c15BigSizes[(op.Big-1)%len(c15BigSizes)] + op.Data // Data varies the size a little
	if s, ok := c15BigCache[n]; ok {
		return s
	}
	s := `{"pad":"` + strings.Repeat("x", n-10) + `"}`
	c15BigCache[n] = s
	return s
}

// c15Short keeps megabyte payloads out of messages.
func c15Short(evs ...vpmetaEvent) string {
	out := make([]vpmetaEvent, len(evs))
	for i, e := range evs {
		if len(e.Data) > 80 {
			e.Data = fmt.Sprintf("<%d bytes>", len(e.Data))
		}
		out[i] = e
	}
	return fmt.Sprintf("%+v", out)
}

func c15Name(nameIdx, ns int, typ int32) string {
	if typ == format.NamespaceEvent {
		return c15NSNames[nameIdx%len(c15NSNames)]
	}
	name := c15Names[nameIdx%len(c15Names)]
	if (typ == format.MetricEvent || typ == format.MetricsGroupEvent) && ns > 0 {
		name = c15NSNames[(ns-1)%len(c15NSNames)] + format.NamespaceSeparator + name
	}
	return name
}

// ---------- reference model ----------

type c15Ent struct {
	cur  vpmetaEvent
	hist []vpmetaEvent // oldest first, with metadata
}

type c15Model struct {
	ents       map[int64]*c15Ent
	order      []int64
	maxVersion int64
	versions   map[int64]bool
}

type c15Req struct {
	name     string
	id       int64
	version  int64
	data     string
	create   bool
	del      uint32
	typ      int32
	metadata string
}

// verdict of the model for one request against the current state
type c15Verdict struct {
	ok          bool
	why         string // first violated rule
	onlyVersion bool   // the version is the only thing wrong (and the type is not a namespace)
	nsID        int64
	isCreate    bool
}

func (m *c15Model) byTypeName(typ int32, name string) *c15Ent {
	for _, id := range m.order {
		if e := m.ents[id]; e.cur.Type == typ && e.cur.Name == name {
			return e
		}
	}
	return nil
}

func (m *c15Model) judge(r c15Req) c15Verdict {
	v := c15Verdict{}
	ex := m.ents[r.id]
	isCreate := r.create
	if r.id < 0 {
		isCreate = ex == nil
	}
	v.isCreate = isCreate
	var bad []string
	// namespace membership: metrics and groups named "<ns>:<x>" must reference an existing namespace
	if r.typ == format.MetricEvent || r.typ == format.MetricsGroupEvent {
		if nsName, _ := format.SplitNamespace(r.name); nsName != "" {
			if ns := m.byTypeName(format.NamespaceEvent, nsName); ns != nil {
				v.nsID = ns.cur.ID
			} else {
				bad = append(bad, "namespace-missing")
			}
		}
	}
	versionBad := false
	if isCreate {
		if r.id >= 0 && r.id != 0 {
			bad = append(bad, "harness: create with id")
		}
		if r.id < 0 && r.typ == format.NamespaceEvent && !r.create {
			bad = append(bad, "predefined-namespace-needs-create") // see SaveNamespace: "meta engine logic requires it"
		}
		if m.byTypeName(r.typ, r.name) != nil {
			bad = append(bad, "name-taken")
		}
	} else {
		if ex == nil {
			bad = append(bad, "no-such-entity")
			versionBad = true
		} else {
			if ex.cur.Version != r.version {
				bad = append(bad, "stale-version")
				versionBad = true
			}
			if r.typ == format.NamespaceEvent && ex.cur.Name != r.name {
				bad = append(bad, "namespace-rename")
			}
			if other := m.byTypeName(r.typ, r.name); other != nil && other != ex {
				bad = append(bad, "name-taken")
			}
			if r.create { // a create request for something that exists (predefined ids only)
				bad = append(bad, "create-of-existing")
			}
		}
	}
	if len(bad) == 0 {
		v.ok = true
		return v
	}
	v.why = bad[0]
	v.onlyVersion = versionBad && len(bad) == 1 && r.typ != format.NamespaceEvent && ex != nil
	return v
}

func (m *c15Model) commit(ev vpmetaEvent, isCreate bool) {
	m.maxVersion = ev.Version
	m.versions[ev.Version] = true
	e := m.ents[ev.ID]
	if e == nil {
		e = &c15Ent{}
		m.ents[ev.ID] = e
		m.order = append(m.order, ev.ID)
	}
	// the type of an entity never changes
	if !isCreate {
		ev.Type = e.cur.Type
	}
	e.cur = ev
	e.hist = append(e.hist, ev)
}

func (m *c15Model) journal(since int64) []vpmetaEvent {
	var out []vpmetaEvent
	for _, id := range m.order {
		if c := m.ents[id].cur; c.Version > since {
			c.Metadata = "" // the journal carries no metadata
			out = append(out, c)
		}
	}
	sort.Slice(out, func(i, j int) bool { return out[i].Version < out[j].Version })
	return out
}

// ---------- running ----------

type c15Run struct {
	t             vpT
	env           *vpmetaEnv
	m             *c15Model
	stats         map[string]int
	rejectedSince int // requests that failed since the last accepted one
}

// c15TripCtx is a request context that is cancelled (client gone, deadline hit) exactly when the
// code under test polls it for the tripAt-th time; the sqlite engine polls before every statement
// step, so a drawn or swept tripAt places the cancellation at any point of the edit transaction,
// including the engine's own statements after the SaveEntity callback has returned.
type c15TripCtx struct {
	context.Context
	mu      sync.Mutex
	calls   int
	tripAt  int
	tripped bool
	done    chan struct{}
}

func c15NewTripCtx(tripAt int) *c15TripCtx {
	return &c15TripCtx{Context: context.Background(), tripAt: tripAt, done: make(chan struct{})}
}

func (c *c15TripCtx) Err() error {
	c.mu.Lock()
	defer c.mu.Unlock()
	c.calls++
	if c.calls >= c.tripAt {
		if !c.tripped {
			c.tripped = true
			close(c.done)
		}
		return context.Canceled
	}
	return nil
}

func (c *c15TripCtx) Done() <-chan struct{} { return c.done }

func (c *c15TripCtx) wasTripped() bool {
	c.mu.Lock()
	defer c.mu.Unlock()
	return c.tripped
}

// saveCancelled sends one request whose context is cancelled at its trip-th poll. A request that
// comes back with an error after the cancellation is a failed request whatever the error says (the
// model is not advanced; the invariant after the step proves that nothing of it is visible). It
// reports whether the cancellation point was reached.
func (r *c15Run) saveCancelled(req c15Req, trip int, what string) (tripped bool, ok bool) {
	v := r.m.judge(req)
	ctx := c15NewTripCtx(trip)
	tlev, err := r.env.db.SaveEntity(ctx, req.name, req.id, req.version, req.data, req.create, req.del, req.typ, req.metadata)
	tripped = ctx.wasTripped()
	if err != nil && tripped {
		r.stats["cancelled-request-failed"]++
		r.rejectedSince++
		return tripped, false
	}
	r.settle(req, v, vpmetaFromTL(tlev), err, what)
	if err == nil && tripped {
		r.stats["cancelled-request-still-succeeded"]++
	}
	return tripped, err == nil
}

// check one answer of SaveEntity against the verdict; on success it is committed to the model
func (r *c15Run) settle(req c15Req, v c15Verdict, ev vpmetaEvent, err error, what string) {
	t := r.t
	if err != nil {
		if v.ok {
			t.Fatalf("%s: %+v rejected with %q, but it names the current version and breaks no naming rule", what, req, err)
		}
		if v.onlyVersion && !errors.Is(err, errInvalidMetricVersion) {
			t.Fatalf("%s: %+v has a stale version and is otherwise valid; expected the version error, got %q", what, req, err)
		}
		r.stats["rejected:"+v.why]++
		r.rejectedSince++
		return
	}
	if !v.ok {
		t.Fatalf("%s: %+v succeeded (%+v), but the model rejects it: %s", what, req, ev, v.why)
	}
	if ev.Version <= r.m.maxVersion || r.m.versions[ev.Version] {
		t.Fatalf("%s: new version %d is not greater than every earlier version (max %d)", what, ev.Version, r.m.maxVersion)
	}
	want := vpmetaEvent{ID: req.id, Name: req.name, Version: ev.Version, Data: req.data, UpdateTime: uint32(r.env.clock.Unix()), Type: req.typ, DeletedAt: req.del, NamespaceID: v.nsID, Metadata: req.metadata}
	if v.isCreate && req.id == 0 {
		if ev.ID <= 0 || r.m.ents[ev.ID] != nil {
			t.Fatalf("%s: created entity got id %d, which is not a fresh positive id", what, ev.ID)
		}
		want.ID = ev.ID
	}
	if ev != want {
		t.Fatalf("%s: answer %+v, expected %+v", what, ev, want)
	}
	// failed requests consume nothing: the accepted request gets the version right after the last accepted one
	if ev.Version != r.m.maxVersion+1 {
		t.Fatalf("%s: accepted request got version %d, the previous accepted version is %d (%d failed requests in between): a version was consumed by a request that did not succeed", what, ev.Version, r.m.maxVersion, r.rejectedSince)
	}
	if r.rejectedSince > 0 {
		r.stats["rejected-edit-then-accepted"]++
	}
	r.rejectedSince = 0
	r.m.commit(ev, v.isCreate)
}

func (r *c15Run) save(req c15Req) (vpmetaEvent, error) {
	ev, err := r.env.db.SaveEntity(vpmetaCtx, req.name, req.id, req.version, req.data, req.create, req.del, req.typ, req.metadata)
	return vpmetaFromTL(ev), err
}

func (r *c15Run) pickVersion(e *c15Ent, mode int) int64 {
	switch mode {
	case 1:
		if len(e.hist) >= 2 {
			return e.hist[len(e.hist)-2].Version
		}
		return e.cur.Version - 1
	case 2:
		return 0
	case 3:
		for _, id := range r.m.order {
			if o := r.m.ents[id]; o != e {
				return o.cur.Version
			}
		}
		return e.cur.Version + 1
	case 4:
		return r.m.maxVersion + 1
	}
	return e.cur.Version
}

func (r *c15Run) positive() []int64 {
	var ids []int64
	for _, id := range r.m.order {
		if id > 0 {
			ids = append(ids, id)
		}
	}
	return ids
}

func (r *c15Run) apply(op c15Op) {
	t := r.t
	switch op.K {
	case "create":
		typ := c15Types[op.Typ%len(c15Types)]
		req := c15Req{name: c15Name(op.Name, op.NS, typ), create: true, data: c15DataOf(op), del: op.Del, typ: typ, metadata: c15Metas[op.Meta%len(c15Metas)]}
		v := r.m.judge(req)
		ev, err := r.save(req)
		r.settle(req, v, ev, err, "create")
		if err == nil {
			r.stats["created"]++
		}
	case "edit":
		ids := r.positive()
		if len(ids) == 0 {
			return
		}
		e := r.m.ents[ids[op.Ent%len(ids)]]
		name := e.cur.Name
		if op.Name > 0 {
			name = c15Name(op.Name-1, op.NS, e.cur.Type)
		}
		req := c15Req{name: name, id: e.cur.ID, version: r.pickVersion(e, op.Ver), data: c15DataOf(op), del: op.Del, typ: e.cur.Type, metadata: c15Metas[op.Meta%len(c15Metas)]}
		v := r.m.judge(req)
		before := e.cur
		ev, err := r.save(req)
		r.settle(req, v, ev, err, "edit")
		if err == nil {
			r.stats["edited"]++
			if before.Name != name {
				r.stats["renamed"]++
			}
			if before.DeletedAt == 0 && op.Del != 0 {
				r.stats["deleted"]++
			}
			if before.DeletedAt != 0 && op.Del == 0 {
				r.stats["undeleted"]++
			}
		}
	case "predef":
		p := c15Predef[op.NegID%len(c15Predef)]
		var ver int64
		if e := r.m.ents[p.id]; e != nil {
			ver = r.pickVersion(e, op.Ver)
		} // a predefined entity that was never saved is known to the callers with version 0
		req := c15Req{name: p.name, id: p.id, version: ver, data: c15Datas[op.Data%len(c15Datas)], typ: p.typ, metadata: c15Metas[op.Meta%len(c15Metas)]}
		if p.typ == format.NamespaceEvent {
			req.create = ver == 0 // metajournal.SaveNamespace
		}
		v := r.m.judge(req)
		ev, err := r.save(req)
		r.settle(req, v, ev, err, "predefined")
		if err == nil {
			r.stats["predefined"]++
		}
	case "cancel":
		var req c15Req
		ids := r.positive()
		if op.Create || len(ids) == 0 {
			typ := c15Types[op.Typ%len(c15Types)]
			req = c15Req{name: c15Name(op.Name, op.NS, typ), create: true, data: c15Datas[op.Data%len(c15Datas)], typ: typ, metadata: c15Metas[op.Meta%len(c15Metas)]}
		} else {
			e := r.m.ents[ids[op.Ent%len(ids)]]
			name := e.cur.Name
			if op.Name > 0 {
				name = c15Name(op.Name-1, op.NS, e.cur.Type)
			}
			req = c15Req{name: name, id: e.cur.ID, version: r.pickVersion(e, op.Ver), data: c15Datas[op.Data%len(c15Datas)], del: op.Del, typ: e.cur.Type, metadata: c15Metas[op.Meta%len(c15Metas)]}
		}
		trip := op.Trip
		if trip < 1 {
			trip = 1
		}
		r.saveCancelled(req, trip, "request cancelled at poll "+fmt.Sprint(trip))
	case "cancelsweep":
		// a valid edit of one entity, retried with the cancellation one poll later each time, until
		// the request gets through without reaching the cancellation point
		ids := r.positive()
		if len(ids) == 0 {
			return
		}
		id := ids[op.Ent%len(ids)]
		for trip := 1; trip <= 96; trip++ {
			e := r.m.ents[id]
			req := c15Req{name: e.cur.Name, id: id, version: e.cur.Version, data: fmt.Sprintf(`{"sweep":%d}`, trip), del: e.cur.DeletedAt, typ: e.cur.Type, metadata: c15Metas[trip%len(c15Metas)]}
			tripped, _ := r.saveCancelled(req, trip, fmt.Sprintf("valid edit cancelled at poll %d", trip))
			r.invariantEntity(fmt.Sprintf("after the edit cancelled at poll %d", trip), id)
			if !tripped {
				r.stats["cancel-sweep-complete"]++
				break
			}
		}
	case "editmissing":
		var maxID int64
		for _, id := range r.m.order {
			if id > maxID {
				maxID = id
			}
		}
		typ := c15Types[op.Typ%len(c15Types)]
		req := c15Req{name: c15Name(op.Name, 0, typ), id: maxID + 3, version: r.pickVersion(&c15Ent{}, op.Ver), data: c15Datas[op.Data%len(c15Datas)], del: op.Del, typ: typ, metadata: c15Metas[op.Meta%len(c15Metas)]}
		v := r.m.judge(req)
		ev, err := r.save(req)
		r.settle(req, v, ev, err, "edit of an entity that does not exist")
	case "race":
		ids := r.positive()
		if len(ids) == 0 || len(op.Racers) < 2 {
			return
		}
		e := r.m.ents[ids[op.Ent%len(ids)]]
		reqs := make([]c15Req, len(op.Racers))
		verdicts := make([]c15Verdict, len(op.Racers))
		valid := 0
		for i, rc := range op.Racers {
			name := e.cur.Name
			if rc.Name > 0 && e.cur.Type != format.NamespaceEvent {
				name = c15RaceNames[(rc.Name-1)%len(c15RaceNames)]
			}
			var del uint32
			if rc.Del {
				del = 55
			}
			reqs[i] = c15Req{name: name, id: e.cur.ID, version: e.cur.Version, data: fmt.Sprintf(`{"racer":%d,"d":%d}`, i, rc.Data), del: del, typ: e.cur.Type, metadata: c15Metas[i%len(c15Metas)]}
			verdicts[i] = r.m.judge(reqs[i])
			if verdicts[i].ok {
				valid++
			}
		}
		r.race(reqs, verdicts, valid, "edit race")
	case "racecreate":
		if len(op.Racers) < 2 {
			return
		}
		typ := c15Types[op.Typ%len(c15Types)]
		name := c15Name(op.Name, op.NS, typ)
		reqs := make([]c15Req, len(op.Racers))
		verdicts := make([]c15Verdict, len(op.Racers))
		valid := 0
		for i, rc := range op.Racers {
			reqs[i] = c15Req{name: name, create: true, data: fmt.Sprintf(`{"racer":%d,"d":%d}`, i, rc.Data), typ: typ, metadata: c15Metas[i%len(c15Metas)]}
			verdicts[i] = r.m.judge(reqs[i])
			if verdicts[i].ok {
				valid++
			}
		}
		r.race(reqs, verdicts, valid, "create race")
	case "journal":
		since := int64(0)
		switch op.Since % 3 {
		case 1:
			if j := r.m.journal(0); len(j) > 0 {
				since = j[(op.Since/3)%len(j)].Version
			}
		case 2:
			since = r.m.maxVersion
		}
		page := op.Page
		if page < 1 {
			page = 1
		}
		want := r.m.journal(since)
		if int64(len(want)) > page {
			want = want[:page]
		}
		evs, err := r.env.db.JournalEvents(vpmetaCtx, since, page)
		if err != nil {
			t.Fatalf("JournalEvents(%d,%d): %v", since, page, err)
		}
		got := make([]vpmetaEvent, 0, len(evs))
		for _, ev := range evs {
			got = append(got, vpmetaFromTL(ev))
		}
		if len(got) > 0 && len(got) < len(want) && c15BudgetExplains(want, len(got)) {
			want = want[:len(got)] // the page was cut by the byte budget, not by the count
			r.stats["single-call-cut-by-byte-budget"]++
		}
		if d := c15DiffEvents(want, got); d != "" {
			t.Fatalf("JournalEvents(since %d, page %d): %s", since, page, d)
		}
		r.stats["journal-call"]++
		if len(want) > 0 && since > 0 {
			r.stats["journal-from-the-middle"]++
		}
	case "reopen":
		r.env.Reopen(t)
		r.stats["restart"]++
	case "clock":
		r.env.clock.Advance(op.Dt)
	default:
		t.Fatalf("harness: unknown op %q", op.K)
	}
}

type c15RaceRes struct {
	ev  vpmetaEvent
	err error
}

func (r *c15Run) race(reqs []c15Req, verdicts []c15Verdict, valid int, what string) {
	t := r.t
	res := make([]c15RaceRes, len(reqs))
	start := make(chan struct{})
	var wg sync.WaitGroup
	for i := range reqs {
		wg.Add(1)
		go func(i int) {
			defer wg.Done()
			<-start
			res[i].ev, res[i].err = r.save(reqs[i])
		}(i)
	}
	close(start)
	wg.Wait()
	winners := 0
	for i := range res {
		if res[i].err == nil {
			winners++
		}
	}
	wantWinners := 0
	if valid > 0 {
		wantWinners = 1
	}
	if winners != wantWinners {
		var all []string
		for i := range res {
			all = append(all, fmt.Sprintf("racer %d %+v (model: ok=%v %s) -> %+v err=%v", i, reqs[i], verdicts[i].ok, verdicts[i].why, res[i].ev, res[i].err))
		}
		t.Fatalf("%s: %d of %d racing requests from the same version succeeded, expected exactly %d: %v", what, winners, len(reqs), wantWinners, all)
	}
	for i := range res {
		if res[i].err == nil {
			r.settle(reqs[i], verdicts[i], res[i].ev, nil, what+" winner")
		}
	}
	for i := range res {
		if res[i].err != nil && verdicts[i].ok {
			// a valid request that lost: by now its version is stale (or, for a create, the name is taken)
			if reqs[i].typ != format.NamespaceEvent && !reqs[i].create && !errors.Is(res[i].err, errInvalidMetricVersion) {
				t.Fatalf("%s: losing racer %d got %q, expected the version error", what, i, res[i].err)
			}
			if reqs[i].create && !errors.Is(res[i].err, errMetricIsExist) {
				t.Fatalf("%s: losing racer %d got %q, expected the entity-exists error", what, i, res[i].err)
			}
		}
	}
	r.stats["race"]++
	if valid >= 2 {
		r.stats["race-with-2+-valid"]++
	}
}

// c15BudgetExplains says whether a page that stops after n of the expected events can be blamed on the
// per-page byte budget: what it carries plus the next event reaches the budget.
func c15BudgetExplains(want []vpmetaEvent, n int) bool {
	var sum int64
	for _, e := range want[:n+1] {
		sum += int64(len(e.Data)) + int64(len(e.Name)) + 40
	}
	return sum >= metricBytesReadLimit
}

// c15ClientRead reads the journal the way a client does: from 0, cursor = last version of the page,
// until a page is empty. Pages must be strictly increasing and continue each other; a page shorter
// than the count limit with more behind it must be explained by the byte budget. The concatenation
// is returned for the comparison with the model (every entity's latest version once, nothing else).
func (r *c15Run) c15ClientRead(when string, page int64) []vpmetaEvent {
	t := r.t
	want := r.m.journal(0)
	var out []vpmetaEvent
	since := int64(0)
	for i := 0; ; i++ {
		evs, err := r.env.db.JournalEvents(vpmetaCtx, since, page)
		if err != nil {
			vpmetaFail(t, "%s: JournalEvents(%d,%d): %v", when, since, page, err)
		}
		if len(evs) == 0 {
			if len(out) < len(want) {
				t.Fatalf("%s: client paging (page %d) got an empty page at cursor %d while newer versions exist: delivered %s, the journal is %s", when, page, since, c15Short(out...), c15Short(want...))
			}
			return out
		}
		for _, ev := range evs {
			e := vpmetaFromTL(ev)
			if e.Version <= since {
				t.Fatalf("%s: client paging (page %d): version %d delivered at cursor %d", when, page, e.Version, since)
			}
			since = e.Version
			out = append(out, e)
		}
		if int64(len(evs)) > page {
			t.Fatalf("%s: page of %d events, limit %d", when, len(evs), page)
		}
		if int64(len(evs)) < page && len(out) < len(want) {
			// more behind a short page: only the byte budget may cut a page
			r.stats["page-cut-by-byte-budget"]++
			if len(out) <= len(want) && !c15BudgetExplains(want[len(out)-len(evs):], len(evs)) {
				t.Fatalf("%s: client paging: page at cursor %d has %d events (limit %d) although more follow and the byte budget is not reached", when, since, len(evs), page)
			}
			rest := want[len(out):]
			for _, e := range rest[1:] {
				if len(e.Data) < len(rest[0].Data) {
					r.stats["page-cut-with-smaller-event-behind"]++
					break
				}
			}
		}
		if i > 10000 {
			t.Fatalf("%s: client paging does not terminate", when)
		}
	}
}

func c15DiffEvents(want, got []vpmetaEvent) string {
	if len(want) != len(got) {
		return fmt.Sprintf("got %d events %s, expected %d %s", len(got), c15Short(got...), len(want), c15Short(want...))
	}
	for i := range want {
		if want[i] != got[i] {
			return fmt.Sprintf("event %d is %s, expected %s", i, c15Short(got[i]), c15Short(want[i]))
		}
	}
	return ""
}

// invariantEntity: the journal and the history of one entity equal the model (cheap form used inside sweeps)
func (r *c15Run) invariantEntity(when string, id int64) {
	t := r.t
	if d := c15DiffEvents(r.m.journal(0), r.c15ClientRead(when, 1000)); d != "" {
		t.Fatalf("%s: journal: %s", when, d)
	}
	e := r.m.ents[id]
	h := vpmetaHistoryOf(t, r.env.db, id)
	if len(h) != len(e.hist) {
		t.Fatalf("%s: GetHistoryShort(%d) lists %d versions, the entity went through %d accepted requests: %+v", when, id, len(h), len(e.hist), h)
	}
	for i := range h {
		if want := e.hist[len(e.hist)-1-i]; h[i].Version != want.Version || h[i].Metadata != want.Metadata {
			t.Fatalf("%s: GetHistoryShort(%d)[%d] = (%d,%q), expected (%d,%q)", when, id, i, h[i].Version, h[i].Metadata, want.Version, want.Metadata)
		}
	}
}

// invariant: everything a reader can see equals the model
func (r *c15Run) invariant(step int) {
	t := r.t
	db := r.env.db
	for _, page := range []int64{2, 1000} {
		got := r.c15ClientRead(fmt.Sprintf("after op %d", step), page)
		if d := c15DiffEvents(r.m.journal(0), got); d != "" {
			t.Fatalf("after op %d: journal read with pages of %d: %s", step, page, d)
		}
	}
	for _, id := range r.m.order {
		e := r.m.ents[id]
		h := vpmetaHistoryOf(t, db, id)
		if len(h) != len(e.hist) {
			t.Fatalf("after op %d: GetHistoryShort(%d) lists %d versions, the entity went through %d", step, id, len(h), len(e.hist))
		}
		for i := range h {
			want := e.hist[len(e.hist)-1-i]
			if h[i].Version != want.Version || h[i].Metadata != want.Metadata {
				t.Fatalf("after op %d: GetHistoryShort(%d)[%d] = (%d,%q), expected (%d,%q)", step, id, i, h[i].Version, h[i].Metadata, want.Version, want.Metadata)
			}
			if h[i].Missing {
				t.Fatalf("after op %d: GetEntityVersioned(%d,%d) not found", step, id, want.Version)
			}
			want.DeletedAt = 0 // GetEntityVersioned does not return it
			if h[i].Entity != want {
				t.Fatalf("after op %d: GetEntityVersioned(%d,%d) = %+v, expected %+v", step, id, want.Version, h[i].Entity, want)
			}
		}
	}
	// nothing of a failed create: ids nobody was given have no history
	var maxID int64
	for _, id := range r.m.order {
		if id > maxID {
			maxID = id
		}
	}
	for _, id := range []int64{maxID + 1, maxID + 2, maxID + 3} {
		if h := vpmetaHistoryOf(t, db, id); len(h) != 0 {
			t.Fatalf("after op %d: entity id %d was never returned by an accepted create, yet it has history %+v", step, id, h)
		}
	}
	// a version that never existed
	if _, err := db.GetEntityVersioned(vpmetaCtx, 1, r.m.maxVersion+7); err == nil {
		t.Fatalf("after op %d: GetEntityVersioned of a version that was never assigned succeeded", step)
	}
}

func c15Prop(t vpT, c c15Case) (nontrivial bool, classes []string) {
	root := vpmetaMkRoot(t)
	defer os.RemoveAll(root)
	clock := &vpmetaClock{t: c.T0}
	env := vpmetaCreate(t, root, "db", Options{MaxBudget: 10, StepSec: 60, BudgetBonus: 1, GlobalBudget: 10}, 0, clock)
	defer env.CloseQuiet()
	r := &c15Run{t: t, env: env, m: &c15Model{ents: map[int64]*c15Ent{}, versions: map[int64]bool{}}, stats: map[string]int{}}
	for i, op := range c.Ops {
		r.apply(op)
		r.invariant(i)
	}
	env.Close(t)
	rejected := 0
	keys := make([]string, 0, len(r.stats))
	for k, n := range r.stats {
		keys = append(keys, k)
		if len(k) > 9 && k[:9] == "rejected:" {
			rejected += n
		}
	}
	sort.Strings(keys)
	classes = append(classes, keys...)
	nontrivial = rejected > 0 && (r.stats["renamed"] > 0 || r.stats["race"] > 0)
	return nontrivial, classes
}

func c15GenOp(t *rapid.T) c15Op {
	w := rapid.IntRange(0, 99).Draw(t, "kind")
	typ := func() int { return rapid.SampledFrom([]int{0, 0, 0, 1, 2, 2, 3, 4, 4}).Draw(t, "typ") }
	ns := func() int { return rapid.SampledFrom([]int{0, 0, 0, 1, 2}).Draw(t, "ns") }
	del := func() uint32 { return rapid.SampledFrom([]uint32{0, 0, 0, 77}).Draw(t, "del") }
	racers := func() []c15Racer {
		return rapid.SliceOfN(rapid.Custom(func(t *rapid.T) c15Racer {
			return c15Racer{Name: rapid.SampledFrom([]int{0, 0, 1, 2, 3}).Draw(t, "name"), Data: rapid.IntRange(0, 3).Draw(t, "data"), Del: rapid.IntRange(0, 5).Draw(t, "del") == 0}
		}), 2, 5).Draw(t, "racers")
	}
	switch {
	case w < 20:
		return c15Op{K: "create", Typ: typ(), Name: rapid.IntRange(0, 3).Draw(t, "name"), NS: ns(), Data: rapid.IntRange(0, 5).Draw(t, "data"), Del: del(), Meta: rapid.IntRange(0, 2).Draw(t, "meta")}
	case w < 52:
		return c15Op{K: "edit", Ent: rapid.IntRange(0, 7).Draw(t, "ent"), Name: rapid.SampledFrom([]int{0, 0, 1, 2, 3, 4}).Draw(t, "name"), NS: ns(), Data: rapid.IntRange(0, 5).Draw(t, "data"),
			Ver: rapid.SampledFrom([]int{0, 0, 0, 0, 0, 1, 1, 2, 3, 4}).Draw(t, "ver"), Del: del(), Meta: rapid.IntRange(0, 2).Draw(t, "meta")}
	case w < 57:
		return c15Op{K: "predef", NegID: rapid.IntRange(0, 3).Draw(t, "neg"), Data: rapid.IntRange(0, 5).Draw(t, "data"), Ver: rapid.SampledFrom([]int{0, 0, 0, 1, 2, 4}).Draw(t, "ver"), Meta: rapid.IntRange(0, 2).Draw(t, "meta")}
	case w < 66:
		return c15Op{K: "race", Ent: rapid.IntRange(0, 7).Draw(t, "ent"), Racers: racers()}
	case w < 70:
		return c15Op{K: "racecreate", Typ: typ(), Name: rapid.IntRange(0, 3).Draw(t, "name"), NS: ns(), Racers: racers()}
	case w < 79:
		return c15Op{K: "journal", Since: rapid.IntRange(0, 20).Draw(t, "since"), Page: rapid.SampledFrom([]int64{1, 2, 3, 5, 100}).Draw(t, "page")}
	case w < 82:
		return c15Op{K: "reopen"}
	case w < 90:
		return c15Op{K: "cancel", Create: rapid.IntRange(0, 3).Draw(t, "create") == 0, Ent: rapid.IntRange(0, 7).Draw(t, "ent"), Typ: typ(), Name: rapid.SampledFrom([]int{0, 0, 1, 2, 3, 4}).Draw(t, "name"), NS: ns(),
			Data: rapid.IntRange(0, 5).Draw(t, "data"), Ver: rapid.SampledFrom([]int{0, 0, 0, 0, 1, 2}).Draw(t, "ver"), Meta: rapid.IntRange(0, 2).Draw(t, "meta"), Trip: rapid.IntRange(1, 12).Draw(t, "trip")}
	case w < 93:
		return c15Op{K: "cancelsweep", Ent: rapid.IntRange(0, 7).Draw(t, "ent")}
	case w < 97:
		return c15Op{K: "editmissing", Typ: typ(), Name: rapid.IntRange(0, 3).Draw(t, "name"), Data: rapid.IntRange(0, 5).Draw(t, "data"), Ver: rapid.SampledFrom([]int{0, 2, 4}).Draw(t, "ver"), Del: del(), Meta: rapid.IntRange(0, 2).Draw(t, "meta")}
	default:
		return c15Op{K: "clock", Dt: rapid.SampledFrom([]int64{1, 7, 3600}).Draw(t, "dt")}
	}
}

func c15Gen() *rapid.Generator[c15Case] {
	return rapid.Custom(func(t *rapid.T) c15Case {
		c := c15Case{T0: rapid.Int64Range(1_700_000_000, 1_700_000_100).Draw(t, "t0")}
		big := rapid.IntRange(0, 5).Draw(t, "big_mode") == 0 // a share of histories carries payloads around the page byte budget
		n := rapid.IntRange(2, 30).Draw(t, "n")
		if big {
			n = rapid.IntRange(4, 12).Draw(t, "n_big")
		}
		for i := 0; i < n; i++ {
			op := c15GenOp(t)
			if big {
				if i < 5 && rapid.IntRange(0, 2).Draw(t, "force_create") > 0 {
					op = c15Op{K: "create", Typ: rapid.SampledFrom([]int{0, 1, 3}).Draw(t, "typ"), Name: i, Data: rapid.IntRange(0, 5).Draw(t, "data")}
				}
				if (op.K == "create" || op.K == "edit") && rapid.IntRange(0, 3).Draw(t, "is_big") > 0 {
					op.Big = rapid.IntRange(1, len(c15BigSizes)).Draw(t, "size")
				}
			}
			c.Ops = append(c.Ops, op)
		}
		return c
	})
}

func TestVerifC15History(t *testing.T) {
	ev := vpNewEv(t, "C15", "history")
	rapid.Check(t, func(rt *rapid.T) {
		c := c15Gen().Draw(rt, "case")
		vpRunCase(rt, "C15", "history", c, func() {
			nt, cls := c15Prop(rt, c)
			ev.Case(nt, c, cls...)
		})
	})
}

func init() {
	vpReplayers["C15/history"] = func(t vpT, raw json.RawMessage) {
		var c c15Case
		if err := json.Unmarshal(raw, &c); err != nil {
			t.Fatalf("%v", err)
		}
		c15Prop(t, c)
	}
}
