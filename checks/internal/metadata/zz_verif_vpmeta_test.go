//go:build verif

package metadata

// Shared harness of the SQLite-backed metadata checks (C15, C16, C19): a DBV2 on a real fsbinlog in
// a scratch directory with a fake clock, close/reopen, replay into a fresh db file, older snapshot
// copies, and a snapshot of everything the package lets a client observe.

import (
	"context"
	"errors"
	"fmt"
	"io"
	"log"
	"os"
	"path/filepath"
	"reflect"
	"sort"
	"strings"
	"sync"
	"time"
	"unsafe"

	"github.com/VKCOM/statshouse/internal/data_model/gen2/tlmetadata"
	"github.com/VKCOM/statshouse/internal/data_model/gen2/tlstatshouse"
	"github.com/VKCOM/statshouse/internal/sqlite"
	"github.com/VKCOM/statshouse/internal/vkgo/binlog/fsbinlog"
)

func init() {
	// the engine logs every open/close through the std logger
	if os.Getenv("VERIF_VERBOSE") == "" {
		log.SetOutput(io.Discard)
	}
}

type vpmetaNopLogger struct{}

func (vpmetaNopLogger) Tracef(format string, args ...interface{}) {}
func (vpmetaNopLogger) Debugf(format string, args ...interface{}) {}
func (vpmetaNopLogger) Infof(format string, args ...interface{})  {}
func (vpmetaNopLogger) Warnf(format string, args ...interface{})  {}
func (vpmetaNopLogger) Errorf(format string, args ...interface{}) {}

// vpmetaClock is the fake wall clock handed to Options.Now (unix seconds, never decreasing).
type vpmetaClock struct {
	mu sync.Mutex
	t  int64
}

func (c *vpmetaClock) Now() time.Time {
	c.mu.Lock()
	defer c.mu.Unlock()
	return time.Unix(c.t, 0)
}

func (c *vpmetaClock) Unix() int64 {
	c.mu.Lock()
	defer c.mu.Unlock()
	return c.t
}

func (c *vpmetaClock) Advance(d int64) {
	c.mu.Lock()
	c.t += d
	c.mu.Unlock()
}

const vpmetaMagic = 3456

// vpmetaFail fails the case; failures that only say "the machine was too slow" (SQLite busy timeout,
// the 5 s close deadline) are reported as inconclusive, never as a violation.
func vpmetaFail(t vpT, format string, args ...any) {
	msg := fmt.Sprintf(format, args...)
	for _, s := range []string{"database is locked", "SQLITE_BUSY", "deadline exceeded", "tx commit failed", "tx begin failed"} {
		if strings.Contains(msg, s) && !strings.HasPrefix(msg, "VP-INCONCLUSIVE") {
			msg = "VP-INCONCLUSIVE real-time limit hit (overloaded machine?): " + msg
			break
		}
	}
	t.Fatalf("%s", msg)
}

// vpmetaEnv is one database instance: a db file plus the binlog (directory) it runs on.
type vpmetaEnv struct {
	root   string // scratch root that owns everything (removed by Cleanup of the owner)
	blDir  string // directory holding the binlog files (prefix <blDir>/meta)
	dbPath string
	opt    Options
	chunk  uint32
	clock  *vpmetaClock
	db     *DBV2
}

var vpmetaCtx = context.Background()

func vpmetaMkRoot(t vpT) string {
	root, err := os.MkdirTemp("", "vpmeta")
	if err != nil {
		vpmetaFail(t, "mkdtemp: %v", err)
	}
	return root
}

func vpmetaBinlogOptions(blDir string, chunk uint32) fsbinlog.Options {
	zero := time.Duration(0)
	return fsbinlog.Options{PrefixPath: filepath.Join(blDir, "meta"), Magic: vpmetaMagic, MaxChunkSize: chunk, WriteCallDelay: &zero}
}

// vpmetaCreate makes an empty binlog under root/<name>/bl and opens a new database on it.
func vpmetaCreate(t vpT, root, name string, opt Options, chunk uint32, clock *vpmetaClock) *vpmetaEnv {
	e := &vpmetaEnv{root: root, blDir: filepath.Join(root, name, "bl"), dbPath: filepath.Join(root, name, "db", "db"), opt: opt, chunk: chunk, clock: clock}
	for _, d := range []string{e.blDir, filepath.Dir(e.dbPath)} {
		if err := os.MkdirAll(d, 0o755); err != nil {
			vpmetaFail(t, "mkdir: %v", err)
		}
	}
	if _, err := fsbinlog.CreateEmptyFsBinlog(vpmetaBinlogOptions(e.blDir, chunk)); err != nil {
		vpmetaFail(t, "create binlog: %v", err)
	}
	e.Open(t)
	return e
}

// Open opens e.dbPath (created when missing) on the binlog in e.blDir; the engine replays whatever
// the db file has not seen yet.
func (e *vpmetaEnv) Open(t vpT) {
	if err := e.TryOpen(); err != nil {
		vpmetaFail(t, "OpenDB(%s): %v", e.dbPath, err)
	}
}

func (e *vpmetaEnv) TryOpen() error {
	if e.db != nil {
		return fmt.Errorf("already open")
	}
	bl, err := fsbinlog.NewFsBinlog(vpmetaNopLogger{}, vpmetaBinlogOptions(e.blDir, e.chunk))
	if err != nil {
		return err
	}
	opt := e.opt
	opt.Now = e.clock.Now
	db, err := OpenDB(e.dbPath, opt, bl)
	if err != nil {
		return err
	}
	e.db = db
	return nil
}

func (e *vpmetaEnv) Close(t vpT) {
	if e.db == nil {
		return
	}
	err := vpmetaCloseDB(e.db)
	e.db = nil
	if err != nil {
		if errors.Is(err, context.DeadlineExceeded) {
			vpmetaFail(t, "VP-INCONCLUSIVE Close did not finish within %v (overloaded machine?): %v", vpmetaCloseTimeout, err)
		}
		vpmetaFail(t, "Close: %v", err)
	}
}

// CloseQuiet is for deferred cleanup.
func (e *vpmetaEnv) CloseQuiet() {
	if e != nil && e.db != nil {
		_ = vpmetaCloseDB(e.db)
		e.db = nil
	}
}

const vpmetaCloseTimeout = 120 * time.Second

// vpmetaCloseDB is DBV2.Close with more patience: DBV2.Close gives the engine 5 s of real time,
// which an overloaded machine (whole-process stalls of several seconds were measured) does not always
// grant; the real-time limit is not part of the checked properties.
func vpmetaCloseDB(db *DBV2) error {
	ctx, cancel := context.WithTimeout(context.Background(), vpmetaCloseTimeout)
	defer cancel()
	if err := db.eng.Close(ctx); err != nil {
		return fmt.Errorf("failed to close db: %w", err)
	}
	db.cancel()
	vpmetaStopEngine(db.eng)
	return nil
}

// vpmetaStopEngine cancels the context of a CLOSED engine. sqlite.Engine never calls its own stop
// function, so the txLoop goroutine of every closed engine keeps waking once a second and calls
// into SQLite with a NULL handle; a process that opens thousands of engines (this harness) ends up
// with thousands of threads parked in the SQLite log callback and dies in pthread_create. A
// production process closes one engine and exits, so this is harness hygiene, not a checked property.
func vpmetaStopEngine(eng *sqlite.Engine) {
	f := reflect.ValueOf(eng).Elem().FieldByName("stop")
	if !f.IsValid() || f.Kind() != reflect.Func || f.IsNil() {
		return
	}
	stop, ok := reflect.NewAt(f.Type(), unsafe.Pointer(f.UnsafeAddr())).Elem().Interface().(func())
	if ok && stop != nil {
		stop()
	}
}

func (e *vpmetaEnv) Reopen(t vpT) {
	e.Close(t)
	e.Open(t)
}

func vpmetaCopyFile(src, dst string) error {
	in, err := os.Open(src)
	if err != nil {
		return err
	}
	defer in.Close()
	out, err := os.Create(dst)
	if err != nil {
		return err
	}
	if _, err = io.Copy(out, in); err != nil {
		out.Close()
		return err
	}
	return out.Close()
}

func vpmetaCopyDir(t vpT, src, dst string) {
	if err := os.MkdirAll(dst, 0o755); err != nil {
		vpmetaFail(t, "mkdir: %v", err)
	}
	ents, err := os.ReadDir(src)
	if err != nil {
		vpmetaFail(t, "readdir: %v", err)
	}
	for _, en := range ents {
		if en.IsDir() {
			continue
		}
		if err := vpmetaCopyFile(filepath.Join(src, en.Name()), filepath.Join(dst, en.Name())); err != nil {
			vpmetaFail(t, "copy: %v", err)
		}
	}
}

// SaveDBFiles copies the db file (and its WAL files, if any are left) of a CLOSED instance.
func (e *vpmetaEnv) SaveDBFiles(t vpT, dstDir string) {
	if e.db != nil {
		vpmetaFail(t, "harness: SaveDBFiles on an open db")
	}
	vpmetaCopyDir(t, filepath.Dir(e.dbPath), dstDir)
}

// vpmetaFork builds a new instance named name from a copy of src's binlog files and, when dbDir is
// not empty, a copy of the db files saved there (an older snapshot); with dbDir == "" the db file is
// absent, so everything is replayed from the binlog. src must be closed.
func vpmetaFork(t vpT, src *vpmetaEnv, name, dbDir string) *vpmetaEnv {
	if src.db != nil {
		vpmetaFail(t, "harness: fork of an open db")
	}
	e := &vpmetaEnv{root: src.root, blDir: filepath.Join(src.root, name, "bl"), dbPath: filepath.Join(src.root, name, "db", "db"), opt: src.opt, chunk: src.chunk, clock: src.clock}
	vpmetaCopyDir(t, src.blDir, e.blDir)
	if dbDir != "" {
		vpmetaCopyDir(t, dbDir, filepath.Dir(e.dbPath))
	} else if err := os.MkdirAll(filepath.Dir(e.dbPath), 0o755); err != nil {
		vpmetaFail(t, "mkdir: %v", err)
	}
	return e
}

// ---------- observable state ----------

type vpmetaEvent struct {
	ID          int64  `json:"id"`
	Name        string `json:"name"`
	Version     int64  `json:"version"`
	Data        string `json:"data"`
	UpdateTime  uint32 `json:"update_time"`
	Type        int32  `json:"type"`
	DeletedAt   uint32 `json:"deleted_at"`
	NamespaceID int64  `json:"namespace_id"`
	Metadata    string `json:"metadata,omitempty"`
}

func vpmetaFromTL(ev tlmetadata.Event) vpmetaEvent {
	return vpmetaEvent{ID: ev.Id, Name: ev.Name, Version: ev.Version, Data: ev.Data, UpdateTime: ev.UpdateTime, Type: ev.EventType, DeletedAt: ev.Unused, NamespaceID: ev.NamespaceId, Metadata: ev.Metadata}
}

type vpmetaPair struct {
	ID  int32  `json:"id"`
	Key string `json:"key"`
}

type vpmetaFlood struct {
	Metric     string `json:"metric"`
	LastUpdate int64  `json:"last_update"`
	CountFree  int64  `json:"count_free"`
}

// vpmetaHistoryEntry is one version of an entity as GetHistoryShort + GetEntityVersioned show it
// (GetEntityVersioned does not return deleted_at).
type vpmetaHistoryEntry struct {
	Version  int64       `json:"version"`
	Metadata string      `json:"metadata"`
	Entity   vpmetaEvent `json:"entity"`
	Missing  bool        `json:"missing,omitempty"` // listed by GetHistoryShort, but GetEntityVersioned says "not exists"
}

type vpmetaState struct {
	Journal   []vpmetaEvent                  `json:"journal"`
	History   map[int64][]vpmetaHistoryEntry `json:"history"`
	Mappings  []vpmetaPair                   `json:"mappings"` // whole table through GetNewMappings, ascending id
	MaxMapID  int32                          `json:"max_map_id"`
	ByValue   map[string]int32               `json:"by_value"` // probe keys → id (0 = not exists)
	ByID      map[int32]string               `json:"by_id"`    // probe ids → key ("\x00absent" = not exists)
	Bootstrap []vpmetaPair                   `json:"bootstrap"`
	Flood     []vpmetaFlood                  `json:"flood"`
}

const vpmetaAbsent = "\x00absent"

// vpmetaJournalPaged reads the journal from version `since` to the end with pages of `page` events.
func vpmetaJournalPaged(t vpT, db *DBV2, since, page int64) []vpmetaEvent {
	var out []vpmetaEvent
	for i := 0; ; i++ {
		evs, err := db.JournalEvents(vpmetaCtx, since, page)
		if err != nil {
			vpmetaFail(t, "JournalEvents(%d,%d): %v", since, page, err)
		}
		if len(evs) == 0 {
			return out
		}
		if int64(len(evs)) > page {
			vpmetaFail(t, "JournalEvents(%d,%d) returned %d events, more than the page", since, page, len(evs))
		}
		for _, ev := range evs {
			out = append(out, vpmetaFromTL(ev))
		}
		if evs[len(evs)-1].Version <= since {
			vpmetaFail(t, "JournalEvents(%d,%d) returned version %d <= since: paging cannot make progress", since, page, evs[len(evs)-1].Version)
		}
		since = evs[len(evs)-1].Version
		if i > 100000 {
			vpmetaFail(t, "journal paging does not terminate")
		}
	}
}

func vpmetaAllMappings(t vpT, db *DBV2, page int32) ([]vpmetaPair, int32) {
	var out []vpmetaPair
	from := int32(-1 << 31)
	var maxID int32
	for i := 0; ; i++ {
		ms, mx, err := db.GetNewMappings(vpmetaCtx, from, page, nil)
		if err != nil {
			vpmetaFail(t, "GetNewMappings(%d,%d): %v", from, page, err)
		}
		maxID = mx
		if len(ms) == 0 {
			return out, maxID
		}
		for _, m := range ms {
			if m.Value <= from {
				vpmetaFail(t, "GetNewMappings(%d) returned id %d", from, m.Value)
			}
			out = append(out, vpmetaPair{ID: m.Value, Key: m.Str})
			from = m.Value
		}
		if i > 100000 {
			vpmetaFail(t, "mapping paging does not terminate")
		}
	}
}

func vpmetaFloodTable(t vpT, db *DBV2) []vpmetaFlood {
	var out []vpmetaFlood
	err := db.eng.Do(vpmetaCtx, "vp_read_flood", func(conn sqlite.Conn, cache []byte) ([]byte, error) {
		rows := conn.Query("vp_select_flood", "SELECT metric_name, last_time_update, count_free FROM flood_limits")
		for rows.Next() {
			name, err := rows.ColumnBlobString(0)
			if err != nil {
				return cache, err
			}
			lt, _ := rows.ColumnInt64(1)
			cf, _ := rows.ColumnInt64(2)
			out = append(out, vpmetaFlood{Metric: name, LastUpdate: lt, CountFree: cf})
		}
		return cache, rows.Error()
	})
	if err != nil {
		vpmetaFail(t, "read flood_limits: %v", err)
	}
	sort.Slice(out, func(i, j int) bool { return out[i].Metric < out[j].Metric })
	return out
}

func vpmetaPairsFromTL(ms []tlstatshouse.Mapping) []vpmetaPair {
	out := make([]vpmetaPair, 0, len(ms))
	for _, m := range ms {
		out = append(out, vpmetaPair{ID: m.Value, Key: m.Str})
	}
	return out
}

// vpmetaHistoryOf returns every version of entity id, newest first.
func vpmetaHistoryOf(t vpT, db *DBV2, id int64) []vpmetaHistoryEntry {
	h, err := db.GetHistoryShort(vpmetaCtx, id)
	if err != nil {
		vpmetaFail(t, "GetHistoryShort(%d): %v", id, err)
	}
	out := make([]vpmetaHistoryEntry, 0, len(h.Events))
	for _, he := range h.Events {
		en := vpmetaHistoryEntry{Version: he.Version, Metadata: he.Metadata}
		ev, err := db.GetEntityVersioned(vpmetaCtx, id, he.Version)
		if err != nil {
			en.Missing = true
		} else {
			en.Entity = vpmetaFromTL(ev)
		}
		out = append(out, en)
	}
	return out
}

// vpmetaSnapshot collects the observable state. ids/keys/mapIDs are extra probes (entities whose
// history is wanted even if they are not in the journal, keys and mapping ids to look up).
func vpmetaSnapshot(t vpT, db *DBV2, journalPage int64, ids []int64, keys []string, mapIDs []int32) vpmetaState {
	s := vpmetaState{History: map[int64][]vpmetaHistoryEntry{}, ByValue: map[string]int32{}, ByID: map[int32]string{}}
	s.Journal = vpmetaJournalPaged(t, db, 0, journalPage)
	idset := map[int64]bool{}
	for _, id := range ids {
		idset[id] = true
	}
	for _, ev := range s.Journal {
		idset[ev.ID] = true
	}
	for id := range idset {
		s.History[id] = vpmetaHistoryOf(t, db, id)
	}
	s.Mappings, s.MaxMapID = vpmetaAllMappings(t, db, 7)
	for _, k := range keys {
		id, notExists, err := db.GetMappingByValue(vpmetaCtx, k)
		if err != nil {
			vpmetaFail(t, "GetMappingByValue(%q): %v", k, err)
		}
		if notExists {
			id = 0
		}
		s.ByValue[k] = id
	}
	for _, p := range s.Mappings {
		mapIDs = append(mapIDs, p.ID)
	}
	for _, id := range mapIDs {
		k, ok, err := db.GetMappingByID(vpmetaCtx, id)
		if err != nil {
			vpmetaFail(t, "GetMappingByID(%d): %v", id, err)
		}
		if !ok {
			k = vpmetaAbsent
		}
		s.ByID[id] = k
	}
	bs, err := db.GetBootstrap(vpmetaCtx)
	if err != nil {
		vpmetaFail(t, "GetBootstrap: %v", err)
	}
	s.Bootstrap = vpmetaPairsFromTL(bs.Mappings)
	s.Flood = vpmetaFloodTable(t, db)
	return s
}

// vpmetaDiff lists the differences between two states in a fixed order ("" = none). Flood rows of
// metrics in skipFlood are not compared.
func vpmetaDiff(a, b vpmetaState, skipFlood map[string]bool) string {
	var d []string
	add := func(format string, args ...any) {
		if len(d) < 12 {
			d = append(d, fmt.Sprintf(format, args...))
		}
	}
	if len(a.Journal) != len(b.Journal) {
		add("journal length %d vs %d", len(a.Journal), len(b.Journal))
	}
	for i := 0; i < len(a.Journal) && i < len(b.Journal); i++ {
		if a.Journal[i] != b.Journal[i] {
			add("journal[%d]: %+v vs %+v", i, a.Journal[i], b.Journal[i])
		}
	}
	ids := map[int64]bool{}
	for id := range a.History {
		ids[id] = true
	}
	for id := range b.History {
		ids[id] = true
	}
	sorted := make([]int64, 0, len(ids))
	for id := range ids {
		sorted = append(sorted, id)
	}
	sort.Slice(sorted, func(i, j int) bool { return sorted[i] < sorted[j] })
	for _, id := range sorted {
		ha, hb := a.History[id], b.History[id]
		if len(ha) != len(hb) {
			add("history of %d: %d versions vs %d", id, len(ha), len(hb))
			continue
		}
		for i := range ha {
			if ha[i] != hb[i] {
				add("history of %d [%d]: %+v vs %+v", id, i, ha[i], hb[i])
			}
		}
	}
	pairs := func(what string, x, y []vpmetaPair) {
		if len(x) != len(y) {
			add("%s: %v vs %v", what, x, y)
			return
		}
		for i := range x {
			if x[i] != y[i] {
				add("%s[%d]: %+v vs %+v", what, i, x[i], y[i])
			}
		}
	}
	pairs("mappings", a.Mappings, b.Mappings)
	if a.MaxMapID != b.MaxMapID {
		add("max mapping id %d vs %d", a.MaxMapID, b.MaxMapID)
	}
	keys := make([]string, 0, len(a.ByValue))
	for k := range a.ByValue {
		keys = append(keys, k)
	}
	sort.Strings(keys)
	for _, k := range keys {
		if a.ByValue[k] != b.ByValue[k] {
			add("GetMappingByValue(%q): %d vs %d", k, a.ByValue[k], b.ByValue[k])
		}
	}
	mids := make([]int32, 0, len(a.ByID)+len(b.ByID))
	seen := map[int32]bool{}
	for id := range a.ByID {
		if !seen[id] {
			seen[id] = true
			mids = append(mids, id)
		}
	}
	for id := range b.ByID {
		if !seen[id] {
			seen[id] = true
			mids = append(mids, id)
		}
	}
	sort.Slice(mids, func(i, j int) bool { return mids[i] < mids[j] })
	for _, id := range mids {
		ka, oka := a.ByID[id]
		kb, okb := b.ByID[id]
		if !oka {
			ka = vpmetaAbsent
		}
		if !okb {
			kb = vpmetaAbsent
		}
		if ka != kb {
			add("GetMappingByID(%d): %q vs %q", id, ka, kb)
		}
	}
	pairs("bootstrap", a.Bootstrap, b.Bootstrap)
	fl := func(s vpmetaState) map[string]vpmetaFlood {
		m := map[string]vpmetaFlood{}
		for _, f := range s.Flood {
			if !skipFlood[f.Metric] {
				m[f.Metric] = f
			}
		}
		return m
	}
	fa, fb := fl(a), fl(b)
	ms := map[string]bool{}
	for m := range fa {
		ms[m] = true
	}
	for m := range fb {
		ms[m] = true
	}
	mnames := make([]string, 0, len(ms))
	for m := range ms {
		mnames = append(mnames, m)
	}
	sort.Strings(mnames)
	for _, m := range mnames {
		x, okx := fa[m]
		y, oky := fb[m]
		if okx != oky || x != y {
			add("flood limit of %q: %+v (present %v) vs %+v (present %v)", m, x, okx, y, oky)
		}
	}
	return strings.Join(d, "; ")
}

// vpmetaPutBootstrap stores the bootstrap mapping set the way a primary does: the statement goes
// through applyPutBootstrap, which returns the binlog event for the engine to append.
func vpmetaPutBootstrap(db *DBV2, ms []tlstatshouse.Mapping) error {
	return db.eng.Do(vpmetaCtx, "put_bootstrap", func(conn sqlite.Conn, cache []byte) ([]byte, error) {
		_, cache, err := applyPutBootstrap(conn, cache, ms)
		return cache, err
	})
}
