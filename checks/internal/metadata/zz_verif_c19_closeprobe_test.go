//go:build verif

package metadata

import (
	"fmt"
	"os"
	"sort"
	"testing"
	"time"
)

func TestVerifC19CloseProbe(t *testing.T) {
	if os.Getenv("VP_CLOSEPROBE") == "" {
		t.Skip()
	}
	root := vpmetaMkRoot(t)
	defer os.RemoveAll(root)
	clock := &vpmetaClock{t: 1700000000}
	e := vpmetaCreate(t, root, "p", Options{MaxBudget: 2, StepSec: 60, BudgetBonus: 1}, 0, clock)
	var ds []time.Duration
	for i := 0; i < 3000; i++ {
		for j := 0; j < i%4; j++ {
			_, err := e.db.GetOrCreateMapping(vpmetaCtx, "m", fmt.Sprint("k", i, "-", j))
			if err != nil {
				t.Fatal(err)
			}
		}
		t0 := time.Now()
		err := e.db.Close()
		d := time.Since(t0)
		e.db = nil
		ds = append(ds, d)
		if err != nil {
			fmt.Printf("iter %d: close err %v after %v\n", i, err, d)
			time.Sleep(2 * time.Second)
		}
		if d > 500*time.Millisecond {
			fmt.Printf("iter %d: slow close %v (ops before: %d)\n", i, d, i%4)
		}
		e.Open(t)
	}
	sort.Slice(ds, func(i, j int) bool { return ds[i] < ds[j] })
	fmt.Printf("close: p50 %v p90 %v p99 %v p999 %v max %v\n", ds[len(ds)/2], ds[len(ds)*9/10], ds[len(ds)*99/100], ds[len(ds)*999/1000], ds[len(ds)-1])
}
