//go:build verif

package metadata

// C16 — replaying the metadata binlog reproduces the primary's state.
//
// A generated history is run against a primary DBV2 (real fsbinlog, fake clock). At a drawn point
// of the history the db file is saved ("older snapshot"). After the history the observable state of
// the primary is recorded, then three instances are opened on copies of the final binlog:
//   A  the primary's own db file (plain restart),
//   B  no db file at all (everything replayed),
//   C  the older snapshot (suffix replayed).
// Oracle: the state of A, B and C equals the state the primary showed before it was closed, and a
// short continuation of further operations gives the same answers and the same final state on all
// three (this exposes hidden state such as AUTOINCREMENT counters).
// ResetFlood writes no binlog event, so the flood-limit row of a metric is not compared between a
// reset and the next mapping creation of that metric (documented exclusion).

import (
	"encoding/json"
	"fmt"
	"os"
	"path/filepath"
	"testing"

	"github.com/VKCOM/statshouse/internal/data_model/gen2/tlstatshouse"
	"github.com/VKCOM/statshouse/internal/format"
	"pgregory.net/rapid"
)

type c16Op struct {
	K      string  `json:"k"` // create edit predef map put delmap reset boot clock reopen
	Ent    int     `json:"ent,omitempty"`
	Typ    int     `json:"typ,omitempty"`
	Name   int     `json:"name,omitempty"`
	NS     int     `json:"ns,omitempty"` // 0: no namespace prefix, i: prefix c16NSNames[i-1]
	Data   int     `json:"data,omitempty"`
	Ver    int     `json:"ver,omitempty"` // 0 current, 1 current-1, 2 zero
	Del    uint32  `json:"del,omitempty"`
	Meta   int     `json:"meta,omitempty"`
	Create bool    `json:"create,omitempty"`
	NegID  int     `json:"neg_id,omitempty"`
	Metric int     `json:"metric,omitempty"`
	Key    int     `json:"key,omitempty"`
	Keys   []int   `json:"keys,omitempty"`
	IDs    []int32 `json:"ids,omitempty"`
	Limit  int64   `json:"limit,omitempty"`
	Dt     int64   `json:"dt,omitempty"`
}

type c16Case struct {
	MaxBudget int64   `json:"max_budget"`
	Bonus     int64   `json:"bonus"`
	Step      uint32  `json:"step"`
	Global    int64   `json:"global"`
	Chunk     uint32  `json:"chunk"`
	T0        int64   `json:"t0"`
	Ops       []c16Op `json:"ops"`
	SnapAt    int     `json:"snap_at"`   // the older snapshot is taken before Ops[SnapAt]
	SnapMode  int     `json:"snap_mode"` // 0: copy of the db files of the closed db, 1: DBV2.backup (VACUUM INTO)
	Cont      []c16Op `json:"cont"`
}

var (
	c16Types   = []int32{format.MetricEvent, format.DashboardEvent, format.MetricsGroupEvent, format.PromConfigEvent, format.NamespaceEvent}
	c16Names   = []string{"a", "b", "c", "d", "e_x"}
	c16NSNames = []string{"n1", "n2"}
	c16Keys    = []string{"k0", "k1", "k2", "k3", "k4", "k5", "значение", "k 7", "\xff\x00bin", "K0"}
	c16Metrics = []string{"m0", "m1", "n1:m"}
	c16Datas   = []string{"{}", `{"v":1}`, `{"v":2,"s":"x y"}`, `{"tags":[{"name":"env"}]}`, `{"v":"é"}`}
	c16Metas   = []string{"", `{"user":"u1"}`, `{"user":"u2"}`}
)

func c16EntityName(op c16Op, typ int32) string {
	if typ == format.NamespaceEvent {
		return c16NSNames[op.Name%len(c16NSNames)]
	}
	name := c16Names[op.Name%len(c16Names)]
	if (typ == format.MetricEvent || typ == format.MetricsGroupEvent) && op.NS > 0 {
		name = c16NSNames[(op.NS-1)%len(c16NSNames)] + format.NamespaceSeparator + name
	}
	return name
}

// c16Run is one database instance plus what the driver of the history remembers about it.
type c16Run struct {
	env        *vpmetaEnv
	ents       []vpmetaEvent   // latest event of every entity this history created, in creation order
	dirtyFlood map[string]bool // metrics reset since their last mapping creation
	mapIDs     map[int32]bool  // every mapping id this history has seen
	renames    int
	mapDeleted int
	replaced   int
	floodErrs  int
	created    int
	rejected   int
	predef     int
	boots      int
	reopens    int
	// shape "delete id X, put X again, later delete of other ids" (replayed deletes must not touch X)
	opIdx      int
	delIDs     map[int32]int // ids removed by a delete batch and still absent -> op index of that delete
	reput      map[int32]int // ids deleted, then put again and still present -> op index of the first delete
	delBatches int           // delete batches that removed something
	dance      int           // times the shape was completed
	danceFrom  int           // smallest op index of a first delete among completed shapes (-1: none)
}

func (r *c16Run) present(t vpT, id int32) bool {
	_, ok, err := r.env.db.GetMappingByID(vpmetaCtx, id)
	if err != nil {
		vpmetaFail(t, "GetMappingByID(%d): %v", id, err)
	}
	return ok
}

// dropVanished forgets re-put ids that a replacing put removed again without a delete event.
func (r *c16Run) dropVanished(t vpT) {
	for id := range r.reput {
		if !r.present(t, id) {
			delete(r.reput, id)
		}
	}
}

func (r *c16Run) fork(env *vpmetaEnv) *c16Run {
	n := &c16Run{env: env, ents: append([]vpmetaEvent(nil), r.ents...), dirtyFlood: map[string]bool{}, mapIDs: map[int32]bool{}, delIDs: map[int32]int{}, reput: map[int32]int{}, danceFrom: -1}
	for k, v := range r.dirtyFlood {
		n.dirtyFlood[k] = v
	}
	for k, v := range r.mapIDs {
		n.mapIDs[k] = v
	}
	return n
}

func c16Err(err error) string {
	if err == nil {
		return "ok"
	}
	return "err:" + err.Error()
}

// apply runs one operation and returns a description of everything the caller of the API saw.
func (r *c16Run) apply(t vpT, op c16Op, inCont bool) string {
	db := r.env.db
	switch op.K {
	case "create":
		typ := c16Types[op.Typ%len(c16Types)]
		name := c16EntityName(op, typ)
		ev, err := db.SaveEntity(vpmetaCtx, name, 0, 0, c16Datas[op.Data%len(c16Datas)], true, op.Del, typ, c16Metas[op.Meta%len(c16Metas)])
		if err != nil {
			r.rejected++
			return c16Err(err)
		}
		r.ents = append(r.ents, vpmetaFromTL(ev))
		return fmt.Sprintf("created %+v", vpmetaFromTL(ev))
	case "edit":
		if len(r.ents) == 0 {
			return "skip"
		}
		slot := op.Ent % len(r.ents)
		cur := r.ents[slot]
		name := cur.Name
		if op.Name > 0 { // Name 0 keeps the name
			name = c16EntityName(c16Op{Name: op.Name - 1, NS: op.NS}, cur.Type)
		}
		ver := cur.Version
		switch op.Ver {
		case 1:
			ver = cur.Version - 1
		case 2:
			ver = 0
		}
		ev, err := db.SaveEntity(vpmetaCtx, name, cur.ID, ver, c16Datas[op.Data%len(c16Datas)], false, op.Del, cur.Type, c16Metas[op.Meta%len(c16Metas)])
		if err != nil {
			r.rejected++
			return c16Err(err)
		}
		if name != cur.Name {
			r.renames++
		}
		r.ents[slot] = vpmetaFromTL(ev)
		return fmt.Sprintf("edited %+v", vpmetaFromTL(ev))
	case "predef":
		typ := c16Types[op.Typ%len(c16Types)]
		id := int64(-1 - op.NegID%4)
		name := c16EntityName(op, typ)
		var ver int64
		slot := -1
		for i, e := range r.ents {
			if e.ID == id {
				slot, ver, typ = i, e.Version, e.Type
				if op.Name == 0 {
					name = e.Name
				}
			}
		}
		if op.Ver != 0 {
			ver = 0
		}
		ev, err := db.SaveEntity(vpmetaCtx, name, id, ver, c16Datas[op.Data%len(c16Datas)], op.Create, op.Del, typ, c16Metas[op.Meta%len(c16Metas)])
		if err != nil {
			r.rejected++
			return c16Err(err)
		}
		r.predef++
		if slot >= 0 {
			if r.ents[slot].Name != name {
				r.renames++
			}
			r.ents[slot] = vpmetaFromTL(ev)
		} else {
			r.ents = append(r.ents, vpmetaFromTL(ev))
		}
		return fmt.Sprintf("predef %+v", vpmetaFromTL(ev))
	case "map":
		metric := c16Metrics[op.Metric%len(c16Metrics)]
		if inCont && r.dirtyFlood[metric] {
			return "skip" // the budget of this metric legitimately differs (ResetFlood is not in the binlog)
		}
		res := ""
		for _, k := range append([]int{op.Key}, op.Keys...) {
			resp, err := db.GetOrCreateMapping(vpmetaCtx, metric, c16Keys[k%len(c16Keys)])
			if err != nil {
				res += c16Err(err) + ";"
				continue
			}
			if c, ok := resp.AsCreated(); ok {
				r.created++
				r.mapIDs[c.Id] = true
				delete(r.dirtyFlood, metric)
				res += fmt.Sprintf("mapping created %d;", c.Id)
			} else if g, ok := resp.AsGetMappingResponse(); ok {
				r.mapIDs[g.Id] = true
				res += fmt.Sprintf("mapping %d;", g.Id)
			} else if resp.IsFloodLimitError() {
				r.floodErrs++
				res += "flood;"
			} else {
				res += fmt.Sprintf("mapping response %+v;", resp)
			}
		}
		return res
	case "put":
		n := len(op.Keys)
		if len(op.IDs) < n {
			n = len(op.IDs)
		}
		ks := make([]string, n)
		for i := range ks {
			ks[i] = c16Keys[op.Keys[i]%len(c16Keys)]
		}
		before, _ := vpmetaAllMappings(t, db, 1000)
		err := db.PutMapping(vpmetaCtx, ks, op.IDs[:n])
		if err == nil {
			after, _ := vpmetaAllMappings(t, db, 1000)
			if len(after) < len(before)+n {
				r.replaced++
			}
			for _, id := range op.IDs[:n] {
				r.mapIDs[id] = true
				if at, ok := r.delIDs[id]; ok {
					delete(r.delIDs, id)
					r.reput[id] = at
				}
			}
			r.dropVanished(t)
		}
		return c16Err(err)
	case "delmap":
		inBatch := map[int32]bool{}
		var gone []int32
		for _, id := range op.IDs {
			if !inBatch[id] && r.present(t, id) {
				gone = append(gone, id)
			}
			inBatch[id] = true
		}
		n, err := db.deleteMappingsByIdBatched(vpmetaCtx, op.IDs)
		if err == nil && n > 0 {
			r.mapDeleted++
			r.delBatches++
			for id, at := range r.reput {
				if !inBatch[id] { // a re-put id survives a later delete batch of other ids
					r.dance++
					if r.danceFrom < 0 || at < r.danceFrom {
						r.danceFrom = at
					}
				}
			}
			for _, id := range gone {
				delete(r.reput, id)
				r.delIDs[id] = r.opIdx
			}
		}
		return fmt.Sprintf("deleted %d %s", n, c16Err(err))
	case "reset":
		if inCont {
			return "skip"
		}
		metric := c16Metrics[op.Metric%len(c16Metrics)]
		_, after, err := db.ResetFlood(vpmetaCtx, metric, op.Limit)
		r.dirtyFlood[metric] = true
		return fmt.Sprintf("reset %d %s", after, c16Err(err))
	case "boot":
		n := len(op.Keys)
		if len(op.IDs) < n {
			n = len(op.IDs)
		}
		ms := make([]tlstatshouse.Mapping, n)
		for i := range ms {
			ms[i] = tlstatshouse.Mapping{Str: c16Keys[op.Keys[i]%len(c16Keys)], Value: op.IDs[i]}
		}
		r.boots++
		return c16Err(vpmetaPutBootstrap(db, ms))
	case "clock":
		if inCont {
			return "skip" // the instances share the clock
		}
		r.env.clock.Advance(op.Dt)
		return "ok"
	case "reopen":
		r.env.Reopen(t)
		r.reopens++
		return "ok"
	}
	t.Fatalf("harness: unknown op %q", op.K)
	return ""
}

func (r *c16Run) snapshot(t vpT) vpmetaState {
	ids := []int64{-1, -2, -3, -4}
	for _, e := range r.ents {
		ids = append(ids, e.ID)
	}
	mids := []int32{-1, 0, 1, 2, 3}
	for id := range r.mapIDs {
		mids = append(mids, id, id+1)
	}
	return vpmetaSnapshot(t, r.env.db, 3, ids, c16Keys, mids)
}

func c16Prop(t vpT, c c16Case) (nontrivial bool, classes []string) {
	root := vpmetaMkRoot(t)
	defer os.RemoveAll(root)
	clock := &vpmetaClock{t: c.T0}
	opt := Options{MaxBudget: c.MaxBudget, StepSec: c.Step, BudgetBonus: c.Bonus, GlobalBudget: c.Global}
	prim := &c16Run{env: vpmetaCreate(t, root, "primary", opt, c.Chunk, clock), dirtyFlood: map[string]bool{}, mapIDs: map[int32]bool{}, delIDs: map[int32]int{}, reput: map[int32]int{}, danceFrom: -1}
	var envs []*vpmetaEnv
	envs = append(envs, prim.env)
	defer func() {
		for _, e := range envs {
			e.CloseQuiet()
		}
	}()

	snapDir := ""
	takeSnapshot := func() {
		snapDir = filepath.Join(root, "snapshot")
		prim.env.Close(t)
		if c.SnapMode == 1 {
			// production way: VACUUM INTO through DBV2.backup of the running engine
			prim.env.Open(t)
			if err := os.MkdirAll(snapDir, 0o755); err != nil {
				t.Fatalf("mkdir: %v", err)
			}
			path, err := prim.env.db.backup(vpmetaCtx, filepath.Join(root, "backup"))
			if err != nil {
				vpmetaFail(t, "backup: %v", err)
			}
			if err := os.Rename(path, filepath.Join(snapDir, "db")); err != nil {
				t.Fatalf("rename backup: %v", err)
			}
		} else {
			prim.env.SaveDBFiles(t, snapDir)
			prim.env.Open(t)
		}
	}
	for i, op := range c.Ops {
		if i == c.SnapAt {
			takeSnapshot()
		}
		prim.opIdx = i
		prim.apply(t, op, false)
	}
	if snapDir == "" {
		takeSnapshot()
	}
	want := prim.snapshot(t)
	prim.env.Close(t)

	// flood rows excluded from the comparison: metrics whose last ResetFlood was not followed by a
	// mapping creation (the reset exists only in the primary's db file, never in the binlog)
	skip := map[string]bool{}
	for k := range prim.dirtyFlood {
		skip[k] = true
	}

	a := prim.fork(vpmetaFork(t, prim.env, "restart", filepath.Dir(prim.env.dbPath)))
	b := prim.fork(vpmetaFork(t, prim.env, "fresh", ""))
	cc := prim.fork(vpmetaFork(t, prim.env, "older", snapDir))
	envs = append(envs, a.env, b.env, cc.env)
	runs := []struct {
		name string
		r    *c16Run
		skip map[string]bool
	}{{"restart on own db file", a, nil}, {"replay into a fresh db file", b, skip}, {"replay on top of the older snapshot", cc, skip}}
	for _, x := range runs {
		if err := x.r.env.TryOpen(); err != nil {
			vpmetaFail(t, "%s: reopening on the primary's binlog failed: %v", x.name, err)
		}
		got := x.r.snapshot(t)
		if d := vpmetaDiff(want, got, x.skip); d != "" {
			t.Fatalf("%s: state differs from the primary (primary vs reopened): %s", x.name, d)
		}
	}
	// continuation: the same further requests must be answered identically
	if len(c.Cont) > 0 {
		for i, op := range c.Cont {
			ra := a.apply(t, op, true)
			for _, x := range runs[1:] {
				if rx := x.r.apply(t, op, true); rx != ra {
					t.Fatalf("%s: continuation op %d %+v answered %q, the restarted primary answered %q", x.name, i, op, rx, ra)
				}
			}
		}
		wa := a.snapshot(t)
		for _, x := range runs[1:] {
			if d := vpmetaDiff(wa, x.r.snapshot(t), x.skip); d != "" {
				t.Fatalf("%s: state after the continuation differs from the restarted primary: %s", x.name, d)
			}
		}
	}
	for _, x := range runs {
		x.r.env.Close(t)
	}

	inside := c.SnapAt > 0 && c.SnapAt < len(c.Ops)
	if prim.renames > 0 {
		classes = append(classes, "rename")
	}
	if prim.mapDeleted > 0 {
		classes = append(classes, "mapping-deleted")
	}
	if prim.replaced > 0 {
		classes = append(classes, "put-replaced")
	}
	if prim.floodErrs > 0 {
		classes = append(classes, "flood-error")
	}
	if prim.created > 0 {
		classes = append(classes, "mapping-created")
	}
	if prim.predef > 0 {
		classes = append(classes, "predefined-entity")
	}
	if prim.boots > 0 {
		classes = append(classes, "bootstrap-put")
	}
	if prim.reopens > 0 {
		classes = append(classes, "restart-inside-history")
	}
	if len(skip) > 0 {
		classes = append(classes, "flood-row-excluded-after-reset")
	}
	if inside {
		classes = append(classes, "snapshot-inside")
	}
	if c.SnapMode == 1 {
		classes = append(classes, "snapshot-by-backup")
	}
	if c.Chunk != 0 {
		if fs, _ := filepath.Glob(filepath.Join(prim.env.blDir, "*.bin")); len(fs) > 1 {
			classes = append(classes, "binlog-rotated")
		}
	}
	if len(c.Cont) > 0 {
		classes = append(classes, "continuation")
	}
	rotated := false
	if fs, _ := filepath.Glob(filepath.Join(prim.env.blDir, "*.bin")); len(fs) > 1 {
		rotated = true
	}
	if prim.delBatches >= 2 {
		classes = append(classes, "two-delete-batches")
	}
	if prim.dance > 0 {
		classes = append(classes, "delete-reput-later-delete")
		if !rotated {
			classes = append(classes, "delete-reput-later-delete:one-binlog-file") // the fresh replay gets it in one payload
		} else {
			classes = append(classes, "delete-reput-later-delete:rotated-binlog")
		}
		if c.SnapAt <= prim.danceFrom {
			classes = append(classes, "delete-reput-later-delete:after-the-snapshot") // the older snapshot replays all of it
		}
	}
	nontrivial = (prim.renames > 0 || prim.mapDeleted > 0 || prim.replaced > 0) && inside || prim.dance > 0
	return nontrivial, classes
}

// c16GenState is the little the generator remembers to aim operations at things that exist.
type c16GenState struct {
	ents int // create/predef operations so far (upper bound of entities)
	maps int // upper bound of the highest mapping id
}

func c16GenOp(t *rapid.T, g *c16GenState, cont bool) c16Op {
	w := rapid.IntRange(0, 99).Draw(t, "kind")
	mapIDs := func(label string, min, max int) []int32 {
		hi := int32(g.maps + 2) // a small id universe: re-putting a deleted id must be common
		if hi > 7 {
			hi = 7
		}
		return rapid.SliceOfN(rapid.Int32Range(1, hi), min, max).Draw(t, label)
	}
	keys := func(label string, min, max int) []int {
		return rapid.SliceOfN(rapid.IntRange(0, len(c16Keys)-1), min, max).Draw(t, label)
	}
	typ := func() int { return rapid.SampledFrom([]int{0, 0, 0, 1, 2, 2, 3, 4, 4}).Draw(t, "typ") }
	create := func() c16Op {
		g.ents++
		return c16Op{K: "create", Typ: typ(), Name: rapid.IntRange(0, 4).Draw(t, "name"), NS: rapid.SampledFrom([]int{0, 0, 0, 1, 2}).Draw(t, "ns"),
			Data: rapid.IntRange(0, 4).Draw(t, "data"), Del: rapid.SampledFrom([]uint32{0, 0, 0, 77}).Draw(t, "del"), Meta: rapid.IntRange(0, 2).Draw(t, "meta")}
	}
	mapOp := func() c16Op {
		op := c16Op{K: "map", Metric: rapid.IntRange(0, 2).Draw(t, "metric"), Key: rapid.IntRange(0, len(c16Keys)-1).Draw(t, "key")}
		if rapid.IntRange(0, 2).Draw(t, "burst") == 0 {
			op.Keys = keys("more", 1, 4)
		}
		g.maps += 1 + len(op.Keys)
		return op
	}
	delOp := func() c16Op { return c16Op{K: "delmap", IDs: mapIDs("ids", 1, 3)} }
	switch {
	case w < 16 || g.ents == 0 && w < 40:
		return create()
	case w < 41:
		return c16Op{K: "edit", Ent: rapid.IntRange(0, g.ents).Draw(t, "ent"), Name: rapid.SampledFrom([]int{0, 1, 2, 3, 4, 5}).Draw(t, "name"), NS: rapid.SampledFrom([]int{0, 0, 0, 0, 1, 2}).Draw(t, "ns"),
			Data: rapid.IntRange(0, 4).Draw(t, "data"), Ver: rapid.SampledFrom([]int{0, 0, 0, 0, 0, 0, 1, 2}).Draw(t, "ver"), Del: rapid.SampledFrom([]uint32{0, 0, 0, 77}).Draw(t, "del"), Meta: rapid.IntRange(0, 2).Draw(t, "meta")}
	case w < 45:
		g.ents++
		return c16Op{K: "predef", NegID: rapid.IntRange(0, 3).Draw(t, "neg"), Typ: typ(), Name: rapid.IntRange(0, 4).Draw(t, "name"),
			Data: rapid.IntRange(0, 4).Draw(t, "data"), Create: rapid.Bool().Draw(t, "create"), Ver: rapid.SampledFrom([]int{0, 0, 0, 1}).Draw(t, "ver"), Meta: rapid.IntRange(0, 2).Draw(t, "meta")}
	case w < 66:
		return mapOp()
	case w < 74:
		ids := mapIDs("ids", 1, 3)
		for _, id := range ids {
			if int(id) > g.maps {
				g.maps = int(id)
			}
		}
		return c16Op{K: "put", Keys: keys("keys", len(ids), len(ids)), IDs: ids}
	case w < 86:
		return delOp()
	case w < 90:
		if cont {
			return mapOp()
		}
		return c16Op{K: "reset", Metric: rapid.IntRange(0, 2).Draw(t, "metric"), Limit: rapid.SampledFrom([]int64{0, -1, 1, 2, 5, 20000}).Draw(t, "limit")}
	case w < 93:
		ids := mapIDs("ids", 0, 3)
		return c16Op{K: "boot", Keys: keys("keys", len(ids), len(ids)), IDs: ids}
	case w < 97:
		if cont {
			return delOp()
		}
		return c16Op{K: "clock", Dt: rapid.SampledFrom([]int64{1, 5, 10, 30, 100}).Draw(t, "dt")}
	default:
		if cont {
			return create()
		}
		return c16Op{K: "reopen"}
	}
}

func c16Gen() *rapid.Generator[c16Case] {
	return rapid.Custom(func(t *rapid.T) c16Case {
		c := c16Case{
			MaxBudget: rapid.Int64Range(1, 3).Draw(t, "max_budget"),
			Bonus:     rapid.Int64Range(0, 2).Draw(t, "bonus"),
			Step:      rapid.SampledFrom([]uint32{10, 60}).Draw(t, "step"),
			Global:    rapid.Int64Range(0, 4).Draw(t, "global"),
			Chunk:     rapid.SampledFrom([]uint32{0, 0, 0, 300}).Draw(t, "chunk"),
			T0:        rapid.Int64Range(1_700_000_000, 1_700_000_100).Draw(t, "t0"),
			SnapMode:  rapid.SampledFrom([]int{0, 0, 1}).Draw(t, "snap_mode"),
		}
		g := &c16GenState{}
		n := rapid.IntRange(2, 16).Draw(t, "n")
		for i := 0; i < n; i++ {
			c.Ops = append(c.Ops, c16GenOp(t, g, false))
		}
		if rapid.IntRange(0, 2).Draw(t, "dance") == 0 {
			// put ids X and Y, delete X, put X again, delete Y - spread over the history
			x := rapid.Int32Range(1, 6).Draw(t, "x")
			y := x%6 + 1 + rapid.Int32Range(0, 3).Draw(t, "dy")
			if y > 6 {
				y -= 6
			}
			if y == x {
				y = x%6 + 1
			}
			key := func(l string) int { return rapid.IntRange(0, len(c16Keys)-1).Draw(t, l) }
			dance := []c16Op{
				{K: "put", Keys: []int{key("kx"), key("ky")}, IDs: []int32{x, y}},
				{K: "delmap", IDs: []int32{x}},
				{K: "put", Keys: []int{key("kz")}, IDs: []int32{x}},
				{K: "delmap", IDs: []int32{y}},
			}
			pos := rapid.IntRange(0, len(c.Ops)).Draw(t, "dance_at")
			for _, d := range dance {
				c.Ops = append(c.Ops[:pos], append([]c16Op{d}, c.Ops[pos:]...)...)
				pos += 1 + rapid.IntRange(0, 2).Draw(t, "gap")
				if pos > len(c.Ops) {
					pos = len(c.Ops)
				}
			}
			n = len(c.Ops)
		}
		c.SnapAt = rapid.IntRange(0, n).Draw(t, "snap_at")
		m := rapid.IntRange(0, 4).Draw(t, "cont_n")
		for i := 0; i < m; i++ {
			c.Cont = append(c.Cont, c16GenOp(t, g, true))
		}
		return c
	})
}

func TestVerifC16Replay(t *testing.T) {
	ev := vpNewEv(t, "C16", "replay")
	rapid.Check(t, func(rt *rapid.T) {
		c := c16Gen().Draw(rt, "case")
		vpRunCase(rt, "C16", "replay", c, func() {
			nt, cls := c16Prop(rt, c)
			ev.Case(nt, c, cls...)
		})
	})
}

func init() {
	vpReplayers["C16/replay"] = func(t vpT, raw json.RawMessage) {
		var c c16Case
		if err := json.Unmarshal(raw, &c); err != nil {
			t.Fatalf("%v", err)
		}
		c16Prop(t, c)
	}
}
