//go:build verif

package sharding

import (
	"encoding/json"
	"fmt"
	"testing"

	"pgregory.net/rapid"

	"github.com/VKCOM/statshouse/internal/data_model"
	"github.com/VKCOM/statshouse/internal/format"
)

// ---------- C10 (1a): sharding.Shard vs. a reference written from the statement, and vs. the API-side choice ----------
//
// Cluster model (aggregator.MakeAggregator, agent.MakeAgent, chutil.selectCH):
//   N shards; aggregator option S = shard-by-metric-shards in {0} ∪ [1,N], 0 is resolved to N;
//   the agent receives ShardByMetricCount = resolved S; the API has a copy of S (raw or resolved) and N = servers/3.

type c10Tag struct {
	I int    `json:"i"`
	V int32  `json:"v,omitempty"`
	S string `json:"s,omitempty"`
}

type c10ShardCase struct {
	NumShards      int      `json:"num_shards"`      // N
	ByMetricShards int      `json:"by_metric"`       // S as configured on the aggregator, 0 = default
	APIRaw         bool     `json:"api_raw"`         // API got the raw (possibly 0) option, not the resolved one
	Strategy       string   `json:"strategy"`        // meta.ShardStrategy
	ShardNum       uint32   `json:"shard_num"`       // meta.ShardNum
	FixedKey       uint32   `json:"fixed_key"`       // meta.ShardFixedKey
	FixedKey2      uint32   `json:"fixed_key2"`      // meta.ShardFixedKey2
	MetricID       int32    `json:"metric"`          //
	Tags           []c10Tag `json:"tags"`            //
	T1             uint32   `json:"t1"`              // two event timestamps
	T2             uint32   `json:"t2"`              //
	Scratch        []byte   `json:"scratch"`         // garbage left in the scratch buffer by the previous call
	NilScratch     bool     `json:"nil_scratch"`     //
}

func (c c10ShardCase) resolved() int {
	if c.ByMetricShards == 0 {
		return c.NumShards
	}
	return c.ByMetricShards
}

func (c c10ShardCase) key(ts uint32) data_model.Key {
	k := data_model.Key{Timestamp: ts, Metric: c.MetricID}
	for _, t := range c.Tags {
		if t.I < 0 || t.I >= format.MaxTags {
			continue
		}
		if t.S != "" {
			k.STags[t.I] = t.S
			k.Tags[t.I] = 0
		} else {
			k.Tags[t.I] = t.V
			k.STags[t.I] = ""
		}
	}
	return k
}

// c10APIShard repeats the six lines of chutil.(*connPool).selectCH that choose the shard to read from
// (the pool itself needs live ClickHouse connections). -1 = read from all shards.
func c10APIShard(meta *format.MetricMetaValue, optShardByMetricShards int, servers int) int {
	shard := -1
	if meta.Sharded() {
		shardCnt := optShardByMetricShards
		shardMax := servers / 3
		if shardCnt == 0 {
			shardCnt = shardMax
		}
		shard = meta.Shard(shardCnt)
		if shard >= shardMax {
			shard = -1
		}
	}
	return shard
}

func c10PropShard(t vpT, c c10ShardCase) (nontrivial bool, classes []string) {
	if c.NumShards < 1 || c.ByMetricShards < 0 || c.ByMetricShards > c.NumShards {
		t.Fatalf("bad case: %+v", c)
	}
	count := uint32(c.resolved())
	meta := &format.MetricMetaValue{MetricID: c.MetricID, Name: "m", ShardStrategy: c.Strategy, ShardNum: c.ShardNum,
		ShardFixedKey: c.FixedKey, ShardFixedKey2: c.FixedKey2}
	k1 := c.key(c.T1)
	k2 := c.key(c.T2)
	k1copy := k1
	var s1, s2 uint32
	var ok1, ok2 bool
	if c.NilScratch {
		s1, ok1 = Shard(&k1, meta, count, nil)
		s2, ok2 = Shard(&k2, meta, count, nil)
	} else {
		scr := append([]byte(nil), c.Scratch...)
		s1, ok1 = Shard(&k1, meta, count, &scr)
		s2, ok2 = Shard(&k2, meta, count, &scr)
	}
	if k1 != k1copy {
		t.Fatalf("Shard modified the key")
	}
	// does not depend on the event timestamp
	if s1 != s2 || ok1 != ok2 {
		t.Fatalf("shard depends on timestamp: t=%d -> (%d,%v), t=%d -> (%d,%v)", c.T1, s1, ok1, c.T2, s2, ok2)
	}
	// does not depend on the scratch buffer
	s3, ok3 := Shard(&k1, meta, count, nil)
	if s3 != s1 || ok3 != ok1 {
		t.Fatalf("shard depends on scratch: (%d,%v) vs (%d,%v)", s1, ok1, s3, ok3)
	}
	// reference from the statement/docs
	kind := ""
	switch {
	case c.FixedKey > 0:
		kind = "fixed-key"
		if !ok1 || s1 != c.FixedKey-1 {
			t.Fatalf("fixed key %d: got (%d,%v)", c.FixedKey, s1, ok1)
		}
	case c.Strategy == format.ShardFixed:
		kind = "fixed"
		if !ok1 || s1 != c.ShardNum {
			t.Fatalf("fixed shard %d: got (%d,%v)", c.ShardNum, s1, ok1)
		}
	case c.Strategy == format.ShardByMetricID:
		kind = "by-metric"
		want := uint32(c.MetricID) % count
		if !ok1 || s1 != want {
			t.Fatalf("by metric id %d count %d: got (%d,%v) want %d", c.MetricID, count, s1, ok1, want)
		}
	case c.Strategy == format.ShardByTagsHash:
		kind = "tags-hash"
		if !ok1 {
			t.Fatalf("tags hash: not ok")
		}
	default:
		kind = "other"
		if ok1 {
			t.Fatalf("strategy %q must not be sharded by this function, got (%d,true)", c.Strategy, s1)
		}
	}
	classes = append(classes, kind)
	// within the configured shard count (computed strategies; fixed ones are range-checked by the caller, see agent check)
	if ok1 && (kind == "by-metric" || kind == "tags-hash") && s1 >= count {
		t.Fatalf("%s: shard %d outside of shard count %d", kind, s1, count)
	}
	// equals the shard the API reads from
	apiOpt := c.resolved()
	if c.APIRaw {
		apiOpt = c.ByMetricShards
	}
	api := c10APIShard(meta, apiOpt, c.NumShards*3)
	sharded := kind == "fixed-key" || kind == "fixed" || kind == "by-metric"
	if meta.Sharded() != sharded {
		t.Fatalf("Sharded()=%v for %s", meta.Sharded(), kind)
	}
	if sharded {
		agentInRange := ok1 && s1 < uint32(c.NumShards) // what Agent.shard checks
		if api >= 0 {
			classes = append(classes, "api-single-shard")
			if !agentInRange || int(s1) != api {
				t.Fatalf("%s: agent writes to shard %d (ok=%v), API reads shard %d", kind, s1, agentInRange, api)
			}
		} else {
			classes = append(classes, "api-all-shards")
			if agentInRange {
				// API reads all shards: still consistent, but then the metric must really be out of range
				t.Fatalf("%s: agent shard %d is valid but API does not use it (reads all)", kind, s1)
			}
		}
	} else if api != -1 {
		t.Fatalf("%s: API reads single shard %d of a metric that is not sharded by metric", kind, api)
	}
	nontrivial = ok1 && c.NumShards > 1
	return nontrivial, classes
}

func c10GenShard() *rapid.Generator[c10ShardCase] {
	strategies := []string{format.ShardByTagsHash, format.ShardFixed, format.ShardByMetricID, format.ShardBuiltinDist, "garbage"}
	return rapid.Custom(func(t *rapid.T) c10ShardCase {
		var c c10ShardCase
		c.NumShards = rapid.IntRange(1, 64).Draw(t, "n")
		switch rapid.IntRange(0, 3).Draw(t, "smode") {
		case 0:
			c.ByMetricShards = 0
		case 1:
			c.ByMetricShards = c.NumShards
		default:
			c.ByMetricShards = rapid.IntRange(1, c.NumShards).Draw(t, "s")
		}
		c.APIRaw = rapid.Bool().Draw(t, "apiraw")
		c.Strategy = strategies[rapid.IntRange(0, 99).Draw(t, "strat")%len(strategies)]
		if rapid.IntRange(0, 9).Draw(t, "w") < 6 {
			c.Strategy = strategies[rapid.IntRange(0, 2).Draw(t, "strat3")]
		}
		small := func(label string) uint32 {
			switch rapid.IntRange(0, 4).Draw(t, label+"k") {
			case 0:
				return uint32(c.NumShards) + uint32(rapid.IntRange(-1, 2).Draw(t, label+"d"))
			case 1:
				return rapid.Uint32().Draw(t, label+"u")
			default:
				return uint32(rapid.IntRange(0, c.NumShards+1).Draw(t, label))
			}
		}
		c.ShardNum = small("shardnum")
		if rapid.IntRange(0, 3).Draw(t, "fk") == 0 {
			c.FixedKey = small("fixedkey")
		}
		if rapid.IntRange(0, 3).Draw(t, "fk2") == 0 {
			c.FixedKey2 = small("fixedkey2")
		}
		switch rapid.IntRange(0, 3).Draw(t, "mk") {
		case 0:
			c.MetricID = rapid.Int32().Draw(t, "metric")
		case 1:
			c.MetricID = -int32(rapid.IntRange(1, 2000).Draw(t, "builtin"))
		default:
			c.MetricID = int32(rapid.IntRange(1, 100000).Draw(t, "metric"))
		}
		nt := rapid.IntRange(0, 6).Draw(t, "ntags")
		for i := 0; i < nt; i++ {
			tg := c10Tag{I: rapid.IntRange(0, format.MaxTags-1).Draw(t, "ti")}
			if rapid.IntRange(0, 3).Draw(t, "ts") == 0 {
				tg.S = rapid.StringMatching(`[a-z0-9_]{1,12}`).Draw(t, "s")
			} else {
				tg.V = rapid.Int32().Draw(t, "v")
			}
			c.Tags = append(c.Tags, tg)
		}
		c.T1 = rapid.Uint32().Draw(t, "t1")
		switch rapid.IntRange(0, 2).Draw(t, "t2k") {
		case 0:
			c.T2 = c.T1 + 1
		case 1:
			c.T2 = 0
		default:
			c.T2 = rapid.Uint32().Draw(t, "t2")
		}
		c.NilScratch = rapid.IntRange(0, 3).Draw(t, "nils") == 0
		c.Scratch = rapid.SliceOfN(rapid.Byte(), 0, 40).Draw(t, "scratch")
		return c
	})
}

func TestVerifC10Shard(t *testing.T) {
	ev := vpNewEv(t, "C10", "shard")
	rapid.Check(t, func(rt *rapid.T) {
		c := c10GenShard().Draw(rt, "case")
		vpRunCase(rt, "C10", "shard", c, func() {
			nt, cls := c10PropShard(rt, c)
			ev.Case(nt, c, cls...)
		})
	})
}

// The fixed-point hash → shard map must stay in range at the extremes of the hash, be monotone in the hash and
// reach every shard (exhaustive over shard counts 1..64 × a sweep of the high hash bits).
func c10GridCount(t vpT, count uint32) int {
	seen := map[uint32]bool{}
	prev := uint32(0)
	n := 0
	steps := uint64(count) * 8
	for i := uint64(0); i <= steps; i++ {
		hi := i * ((1 << 32) / steps)
		if hi > 0xffffffff {
			hi = 0xffffffff
		}
		for _, lo := range []uint64{0, 0xffffffff} {
			h := hi<<32 | lo
			s := shardByMappedTags(h, count)
			if s >= count {
				t.Fatalf("hash %#x count %d -> shard %d out of range", h, count, s)
			}
			if s < prev {
				t.Fatalf("hash %#x count %d -> shard %d after %d: not monotone", h, count, s, prev)
			}
			prev = s
			seen[s] = true
			n++
		}
	}
	if len(seen) != int(count) {
		t.Fatalf("count %d: only %d shards reachable", count, len(seen))
	}
	if shardByMappedTags(0, count) != 0 || shardByMappedTags(^uint64(0), count) != count-1 {
		t.Fatalf("count %d: ends map to %d and %d", count, shardByMappedTags(0, count), shardByMappedTags(^uint64(0), count))
	}
	return n
}

func TestVerifC10ShardGrid(t *testing.T) {
	ev := vpNewEv(t, "C10", "shard-grid")
	n := 0
	for count := uint32(1); count <= 64; count++ {
		c := count
		vpRunCase(t, "C10", "shard-grid", map[string]any{"count": c}, func() { n += c10GridCount(t, c) })
		ev.Case(true, fmt.Sprintf("count=%d", count), "grid")
	}
	ev.Extra("grid_points", n)
}

func init() {
	vpReplayers["C10/shard"] = func(t vpT, raw json.RawMessage) {
		var c c10ShardCase
		if err := json.Unmarshal(raw, &c); err != nil {
			t.Fatalf("decode: %v", err)
		}
		c10PropShard(t, c)
	}
	vpReplayers["C10/shard-grid"] = func(t vpT, raw json.RawMessage) {
		var c struct {
			Count uint32 `json:"count"`
		}
		if err := json.Unmarshal(raw, &c); err != nil {
			t.Fatalf("decode: %v", err)
		}
		if c.Count != 0 {
			c10GridCount(t, c.Count)
		}
	}
}
