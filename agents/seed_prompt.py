#!/usr/bin/env python3
"""Print the prompt for a seeded-breakage agent: only the property text + its scratch worktree."""
import json, sys
pid, n = sys.argv[1], sys.argv[2]
hint = sys.argv[3] if len(sys.argv) > 3 else ""
p = [json.loads(l) for l in open('/verif/properties.jsonl') if json.loads(l)['id'] == pid][0]
d = "/tmp/seed/%s-%s" % (pid, n)
print(f"""You are helping to evaluate a verification framework by producing ONE realistic, subtle regression in a Go code base.

Repository: a scratch git worktree of VKCOM/statshouse at `{d}/repo` (yours alone; work only inside `{d}`; do not read or write `/repo`, `/verif` or any other directory outside `{d}` except the Go module cache, and do not use the network — there is none).
Build/test environment: run go from inside the worktree with `GOPROXY=off GOFLAGS=-mod=mod` set (do NOT set GOTOOLCHAIN or GOSUMDB; go 1.24 is selected automatically). Packages that import the cgo SQLite wrapper (`internal/sqlite`, `internal/metadata`, `internal/vkgo/sqlitev2/...`) do not link in this checkout because `internal/sqlite/sqlite0/sqlite3.c` is an empty placeholder; if you need them, copy `/usr/lib/node_modules/better-sqlite3/deps/sqlite3/sqlite3.c` and `sqlite3.h` over `internal/sqlite/sqlite0/sqlite3.c` and `sqlite3.h` inside your worktree for testing only (and do NOT include that copy in your patch).

The semantic property that the code currently satisfies (this is all you are told about what is being verified):

  id: {p['id']}
  title: {p['title']}
  statement: {p['statement']}
  quantified over: {p['quantifier']['text']}
  code it is anchored in: {', '.join(p['anchors']['files'])}

Your job: make a small change to the production code (not tests) that BREAKS this property, such that
  1. the repository still compiles (`go build ./...` and `go vet`-free `go test -vet=off -count=1 -run '^$' ./...` for the touched packages);
  2. the existing test suite still passes (run `go test -vet=off -count=1 ./...` for every package you touched and every package that imports it within `internal/...`; report the commands and results);
  3. the breakage needs something SPECIFIC to manifest — a particular interleaving, a crash or fault at a particular point, a multi-step sequence of operations, an unusual input (boundary length, special value, particular combination of fields), or two cooperating sites that each look fine alone. It must NOT be something ordinary use or a smoke test exposes at once. It should look like a plausible mistake a maintainer could make in a refactoring or optimisation (off-by-one, wrong operand, missing update on one path, lost wakeup, stale cache entry, wrong comparison, dropped field on one encoding path, ...). {hint}
  4. you provide a demonstration: a Go test file (placed in the relevant package directory, name it `zz_seed_demo_test.go`) or a small program that FAILS with your change and PASSES without it (verify both with `git diff -- . ':!*zz_seed_demo_test.go' > ../out/patch.diff; git apply -R ../out/patch.diff; <run demo>; git apply ../out/patch.diff; <run demo>` — never use `git stash`, `git commit`, or branch operations: the object store is shared with other worktrees). The demonstration must drive the real code (no mocks of the code under test) and its failure message must say what property-level behaviour went wrong.

Deliver, in `{d}/out/`:
  - `patch.diff` — `git diff` of the production change only (no test files, no sqlite copy);
  - the demonstration file(s) (copy of `zz_seed_demo_test.go`, or the program) and `RUN.md` with the exact commands to run it and the expected output with/without the patch;
  - `meta.json`: {{"property": "{p['id']}", "summary": "...one paragraph: what was changed and why it breaks the property...", "needs": "...what specific circumstance is needed to manifest...", "files_changed": [...], "suite_commands_run": [...], "suite_result": "..."}}.
Leave the worktree with the patch applied and the demo file present. Your final message: a 10-line summary (what you changed, what it needs to manifest, commands run and their results). Do not weaken or delete existing tests. Do not make the change trivially detectable (e.g. do not break every call).""")
